"""C05 Names resolve lexically: innermost binding wins and bindings never leak."""
import re
from lib import syn as S
from lib.core import AnalysisIncomplete, site

EXPLANATION = (
    "Static decision of the scoping discipline of the two places that implement lexical scope. R05.1: the set of scope "
    "constructs is derived from the typer (hir::Expr forms for which it opens a LocalTypeEnv scope / closure frame); for each of "
    "them the AST->HIR resolver must resolve the scoped children in a child environment obtained from enter_scope() (per arm "
    "for alternatives), never in the caller's environment, because the resolver environment is one growing vector searched "
    "from the back. R05.2: lookups search newest-first (append + reverse search) and locals are consulted before definitions "
    "and builtins. R05.3: push_scope/pop_scope, begin_closure/end_closure and lift's push_layer/pop_layer are paired in the same "
    "block with no early exit in between. R05.4: a loop that binds patterns per iteration (match arms) opens and closes its scope "
    "inside the loop body. Not decided: that every unresolved name is diagnosed (depends on typer lookups), nor anything about "
    "programs' values.")

NR = "crates/compiler/src/typer/name_resolution.rs"
CHECK = "crates/compiler/src/typer/check.rs"
TOPLEVEL = "crates/compiler/src/typer/toplevel.rs"
LIFT = "crates/compiler/src/lift.rs"

OPENERS = {"push_scope": "pop_scope", "begin_closure": "end_closure", "push_layer": "pop_layer"}


def big_match(fn, enum_path_hint):
    """the match in fn with most arms whose patterns mention enum_path_hint (e.g. 'Expr')"""
    best = None
    for m in S.find(fn.body, "Match"):
        n = 0
        for arm in m["arms"]:
            for alt in S.pat_alts(arm["pat"]):
                h = S.pat_head(alt)
                if h[0] == "variant" and len(h[1]) >= 2 and h[1][-2] == enum_path_hint:
                    n += 1
        if n and (best is None or n > best[0]):
            best = (n, m)
    return best[1] if best else None


def arms_by_variant(m, enum_name):
    out = {}
    for arm in m["arms"]:
        for alt in S.pat_alts(arm["pat"]):
            h = S.pat_head(alt)
            if h[0] == "variant" and len(h[1]) >= 2 and h[1][-2] == enum_name:
                out.setdefault(h[1][-1], []).append(arm)
    return out


def typer_scope_constructs(run, model):
    """hir::Expr variants for which the typer opens a scope: derived from where push_scope/begin_closure are called."""
    fns = {f.name: f for f in model.fns(CHECK) if f.impl == "Typer"}
    dispatch = [fns.get("infer_expr"), fns.get("check_expr")]
    if not all(dispatch):
        raise AnalysisIncomplete("typer dispatch functions infer_expr/check_expr not found")
    openers = {}  # fn name -> set of opener names called directly
    for f in fns.values():
        names = {S.callee_name(c) for c in S.calls(f.body, "push_scope", "begin_closure")}
        if names:
            openers[f.name] = names
    constructs = {}
    for d in dispatch:
        m = big_match(d, "Expr")
        if m is None:
            raise AnalysisIncomplete(f"no match over hir::Expr in {d.qual}")
        for v, arms in arms_by_variant(m, "Expr").items():
            for arm in arms:
                direct = [S.callee_name(c) for c in S.calls(arm["body"], "push_scope", "begin_closure")]
                via = [S.callee_name(c) for c in S.calls(arm["body"]) if S.callee_name(c) in openers and S.callee_name(c) not in ("infer_expr", "check_expr")]
                if direct or via:
                    constructs.setdefault(v, set()).add(d.name + ("" if direct else "->" + via[0]))
    return constructs, openers


def r05_1(run, model):
    run.rule("R05.1", "for every scope construct (the hir::Expr forms for which the typer opens a scope: block, match arm, closure) "
                      "the resolver resolves the scoped children in a child environment from enter_scope(), one per arm for "
                      "alternatives; resolving them in the caller's environment leaks the binders past the construct")
    constructs, _ = typer_scope_constructs(run, model)
    run.anchor("typer scope constructs (derived)", sorted(constructs))
    run.floor("scope constructs derived from the typer", len(constructs), 3)
    f = model.fn("resolve_expr", NR, impl="NameResolution")
    env_param = None
    for p in f.params():
        if not p["self"] and "ResolveLocalEnv" in (p["ty"] or ""):
            env_param = p["pat"]["name"]
    if env_param is None:
        raise AnalysisIncomplete("resolve_expr has no ResolveLocalEnv parameter")
    m = big_match(f, "Expr")
    if m is None:
        raise AnalysisIncomplete("resolve_expr: match over ast::Expr not found")
    arms = arms_by_variant(m, "Expr")
    ast_expr = model.enum("Expr", "crates/ast/src/ast.rs")
    fields = {v["name"]: v["fields"] for v in ast_expr["variants"]}
    resolvers = {"resolve_expr", "resolve_pat", "resolve_closure_param"}
    for v in sorted(constructs):
        if v not in arms:
            run.ob("R05.1", f"resolve_expr|{v}|arm", False, site(NR, f.node["sp"]), f"no arm for scope construct {v}")
            continue
        vf = fields.get(v, [])
        alternatives = [fl["name"] for fl in vf if re.search(r"Vec<\s*Arm\s*>", fl["ty"])]
        # scrutinee-like children: expression children of a variant that also has alternatives (evaluated in the outer scope)
        outer_ok = set()
        if alternatives:
            outer_ok = {fl["name"] for fl in vf if re.search(r"Box<\s*Expr\s*>", fl["ty"])}
        for arm in arms[v]:
            body = arm["body"]
            # child envs created in this arm: let [mut] X = <something>.enter_scope()
            child_envs = {}
            for loc in S.find(body, "Local"):
                init = loc.get("init")
                if init and init["k"] == "MethodCall" and init["method"] == "enter_scope" and loc["pat"]["k"] == "PIdent":
                    child_envs[loc["pat"]["name"]] = loc
            par = S.Parents(body)
            calls = [c for c in S.calls(body) if S.callee_name(c) in resolvers]
            if not calls:
                run.ob("R05.1", f"resolve_expr|{v}|children resolved", False, site(NR, arm["sp"]), "no recursive resolve call in the arm")
            for c in calls:
                args = c["args"]
                subj = S.idents(args[0]) if args else set()
                envarg = None
                for a in args[1:]:   # the environment is recognised by what it is (the parameter or a child scope), not by its position
                    ids = S.idents(a)
                    if env_param in ids:
                        envarg = env_param
                    for ce in child_envs:
                        if ce in ids:
                            envarg = ce
                cname = S.callee_name(c)
                key = f"resolve_expr|{v}|{cname}({','.join(sorted(subj)) or '?'})"
                if envarg == env_param:
                    ok = bool(subj) and subj <= outer_ok
                    run.ob("R05.1", key, ok, site(NR, c["sp"]),
                           f"{cname} on {sorted(subj)} uses the caller's environment `{env_param}`" +
                           ("" if ok else f"; binders introduced inside this {v} stay visible after it ends"),
                           witness="`match o { Some(x) => x, None => x }` with an outer x resolves the second x to the first arm's binder "
                                   "(internal error 'Variable x/N not found') / `{ let y = 1; y }; y` resolves")
                elif envarg in child_envs:
                    ok = True
                    detail = f"{cname} on {sorted(subj)} uses child environment `{envarg}`"
                    if alternatives and not (subj <= outer_ok):
                        # per-alternative: the child env must be created inside the closure/loop that visits one arm
                        loc = child_envs[envarg]
                        iter_scopes = [a for a in par.ancestors(c) if a["k"] in ("Closure", "For")]
                        inner = iter_scopes[0] if iter_scopes else None
                        ok = inner is not None and S.span_contains(inner["sp"], loc["sp"])
                        detail += "" if ok else "; but that environment is shared by all arms (created outside the per-arm iteration)"
                    run.ob("R05.1", key, ok, site(NR, c["sp"]), detail,
                           witness="a variable bound by an earlier arm's pattern is visible in later arms")
                else:
                    run.ob("R05.1", key, False, site(NR, c["sp"]), f"{cname}: environment argument not recognised")


def r05_16(run, model):
    run.rule("R05.16", "the typer does not decide again what a resolved name denotes: in every function of typer/check.rs that tells "
                       "`NameRef::Local` from the other resolutions, each look-up in the table of top-level functions (get_type_of_function and "
                       "the helpers that reach it) sits in a match arm for `NameRef::Def`, `Builtin` or `Unresolved` - a look-up in front of the "
                       "match, or in an arm that also matches `Local`, lets a function of the same name win over the local binder")
    CHECK = "crates/compiler/src/typer/check.rs"
    fns = [g for g in model.fns(CHECK) if g.body is not None]
    look = {"get_type_of_function"}
    grew = True
    while grew:
        grew = False
        for g in fns:
            if g.impl is None and g.name not in look and any(S.callee_name(c) in look for c in S.calls(g.body)):
                look.add(g.name)
                grew = True
    n = 0
    for f0 in fns:
        if f0.name in look:
            continue
        f = model.inlined_fn(f0)
        txt = S.norm_ws(run.facts.text(CHECK, f0.body["sp"]))
        if "NameRef::Local" not in txt:
            continue
        par = S.Parents(f.body)
        k = 0
        for c in S.walk(f.body):
            if c["k"] not in ("Call", "MethodCall") or S.callee_name(c) not in look or c.get("inlined_call"):
                continue
            n += 1
            k += 1
            arm = None
            for a in par.ancestors(c):
                if a["k"] == "Arm" and "NameRef::" in S.norm_ws(run.facts.text(CHECK, a["pat"]["sp"])):
                    arm = a
                    break
            pt = S.norm_ws(run.facts.text(CHECK, arm["pat"]["sp"])) if arm is not None else ""
            ok = arm is not None and "NameRef::Local" not in pt
            run.ob("R05.16", f"{f0.name}|function-table look-up #{k} belongs to a non-local resolution", ok, site(CHECK, c["sp"]),
                   (f"inside the arm `{pt[:60]}`" if arm is not None else "outside every arm that names a resolution: it is reached for `NameRef::Local` too"),
                   witness="fn run(string_println: (string) -> unit) { string_println(\"x\") }: the call goes to the builtin, not to the parameter; "
                           "fn twice(f: (int32) -> int32) with a top-level `fn f(s: string)` is rejected for a type mismatch")
    run.floor("function-table look-ups in the functions that know NameRef::Local", n, 5)


def r05_2(run, model):
    run.rule("R05.2", "name lookup is newest-first: the resolver environment appends binders and searches from the back, and a "
                      "single-segment path consults locals before package definitions and builtins")
    fns = [f for f in model.fns(NR) if f.impl == "ResolveLocalEnv"]
    if not fns:
        raise AnalysisIncomplete("impl ResolveLocalEnv not found")
    adders = [f for f in fns if any(True for _ in S.calls(f.body, "push_back", "push_front", "push", "insert"))]
    lookups = [f for f in fns if f.node.get("ret") and "LocalId" in f.node["ret"] and "Option" in f.node["ret"]]
    if not adders or not lookups:
        raise AnalysisIncomplete("ResolveLocalEnv add/lookup methods not found")
    append_back = all(any(True for _ in S.calls(f.body, "push_back", "push")) and not any(True for _ in S.calls(f.body, "push_front")) for f in adders)
    for f in lookups:
        rev = any(True for _ in S.calls(f.body, "rfind", "rev", "next_back", "last", "rposition"))
        fwd = any(True for _ in S.calls(f.body, "find", "position", "next")) and not rev
        ok = (append_back and rev) or (not append_back and fwd)
        run.ob("R05.2", f"ResolveLocalEnv::{f.name}|search direction", ok, site(NR, f.node["sp"]),
               f"binders are {'appended at the back' if append_back else 'pushed at the front'}; lookup searches {'from the back' if rev else 'from the front'}",
               witness="`let x = 1; let x = 2; x` would resolve to the first x")
    # a nested scope starts from its parent's binders: a copy that leaves entries behind must choose among equal names the way
    # the lookup does (walk newest-first), or a shadowed binder comes back to life inside every block, closure and arm
    copies = [f for f in fns if f.node.get("ret") and S.norm_ws(f.node["ret"]) in ("Self", "ResolveLocalEnv")]
    run.floor("ResolveLocalEnv methods that produce an environment", len(copies), 1)
    for f in copies:
        loops = list(S.find(f.body, "For", "While")) + [c for c in S.walk(f.body) if c["k"] == "MethodCall" and c["method"] in ("filter", "filter_map", "retain", "dedup_by_key", "dedup_by", "take", "skip", "truncate")]
        if not loops:
            run.ob("R05.2", f"ResolveLocalEnv::{f.name}|the new scope sees the binders of its parent", True, site(NR, f.node["sp"]), "no entry is dropped: the environment is copied whole")
            continue
        rev = any(True for _ in S.calls(f.body, "rev", "next_back", "pop_back"))
        ok = (append_back and rev) or (not append_back and not rev)
        run.ob("R05.2", f"ResolveLocalEnv::{f.name}|the new scope sees the binders of its parent", ok, site(NR, loops[0]["sp"]),
               f"entries are dropped while copying; the walk goes {'newest-first' if ok else 'oldest-first'} while lookups take the newest binder",
               witness="`let x = 1; let x = 2; { x }` inside a block, closure or match arm resolves to the first x")
    # locals before definitions / builtins
    f = model.fn("resolve_expr", NR, impl="NameResolution")
    m = big_match(f, "Expr")
    arms = arms_by_variant(m, "Expr").get("EPath", [])
    if not arms:
        raise AnalysisIncomplete("resolve_expr: EPath arm not found")
    lookup_names = {lf.name for lf in lookups}
    for arm in arms:
        order = []
        for c in S.walk(arm["body"]):
            if c["k"] == "MethodCall":
                if c["method"] in lookup_names:
                    order.append(("local", c["sp"]))
                elif c["method"] == "get" and c["recv"]["k"] == "Field" and c["recv"]["member"] in ("def_names", "builtin_names"):
                    order.append((c["recv"]["member"], c["sp"]))
        # `if let Some(x) = env.rfind(..) {local} else {defs.. else builtins}`: the local lookup must be the condition
        # of the outermost if whose else-branch contains the other lookups
        ok = False
        detail = "lookups in the single-segment path arm: " + ", ".join(o[0] for o in order)
        for iff in S.find(arm["body"], "If"):
            cond_l = [c for c in S.walk(iff["cond"]) if c["k"] == "MethodCall" and c["method"] in lookup_names]
            els = iff.get("else")
            if cond_l and els is not None:
                inner = {c["recv"]["member"] for c in S.walk(els) if c["k"] == "MethodCall" and c["method"] == "get" and c["recv"]["k"] == "Field"}
                then_inner = {c["recv"]["member"] for c in S.walk(iff["then"]) if c["k"] == "MethodCall" and c["method"] == "get" and c["recv"]["k"] == "Field"}
                if {"def_names", "builtin_names"} <= inner and not ({"def_names", "builtin_names"} & then_inner):
                    ok = True
        run.ob("R05.2", "resolve_expr|EPath|locals before definitions and builtins", ok, site(NR, arm["sp"]), detail,
               witness="a local named like a top-level function would refer to the function")
        # the package's own definitions before the by-name intrinsics: an if whose condition asks def_names and whose else-branch
        # (not its then-branch) asks builtin_names
        ok2 = False
        for iff in S.find(arm["body"], "If"):
            cond_d = [c for c in S.walk(iff["cond"]) if c["k"] == "MethodCall" and c["method"] == "get" and c["recv"]["k"] == "Field" and c["recv"]["member"] == "def_names"]
            els = iff.get("else")
            if cond_d and els is not None:
                inner = {c["recv"]["member"] for c in S.walk(els) if c["k"] == "MethodCall" and c["method"] == "get" and c["recv"]["k"] == "Field"}
                if "builtin_names" in inner:
                    # and no test of builtin_names guards this if from outside
                    par_ = S.Parents(arm["body"])
                    outer = [a for a in par_.ancestors(iff) if a["k"] == "If" and any(
                        c["k"] == "MethodCall" and c["method"] == "get" and c["recv"]["k"] == "Field" and c["recv"]["member"] == "builtin_names" for c in S.walk(a["cond"]))]
                    ok2 = not outer
        run.ob("R05.2", "resolve_expr|EPath|definitions of the package before builtins", ok2, site(NR, arm["sp"]), detail,
               witness="package Lib defines fn vec_len(v: Vec[int32]) -> int32 { .. } and calls it unqualified: the call is captured by the intrinsic "
                       "(lowered to len(v)), the user's function is pruned as dead code")


def paired_in_block(run, model, rel, rule):
    """every opener call statement has its closer later in the same block, with no early exit in between"""
    n = 0
    for f in model.fns(rel):
        if f.body is None:
            continue
        for blk in S.find(f.body, "Block"):
            stmts = blk["stmts"]
            for i, st in enumerate(stmts):
                e = st.get("expr") if st["k"] == "ExprStmt" else None
                if not (e and e["k"] == "MethodCall" and e["method"] in OPENERS):
                    continue
                n += 1
                opener, closer = e["method"], OPENERS[e["method"]]
                recv = S.norm_ws(run.facts.text(rel, e["recv"]["sp"]))
                close_at = None
                for j in range(i + 1, len(stmts)):
                    for c in S.walk(stmts[j]):
                        if c["k"] == "MethodCall" and c["method"] == closer and S.norm_ws(run.facts.text(rel, c["recv"]["sp"])) == recv:
                            close_at = j
                            break
                    if close_at is not None:
                        break
                key = f"{f.qual}|{recv}.{opener}#{sum(1 for s in stmts[:i] if s.get('expr', {}).get('method') == opener) if True else 0}"
                if close_at is None:
                    run.ob(rule, key, False, site(rel, e["sp"]), f"{recv}.{opener}() has no {closer}() later in the same block",
                           witness="the scope stays open (or is closed on only some paths): later binders land in the wrong scope")
                    continue
                exits = []
                for s in stmts[i + 1:close_at]:
                    for x in S.walk_no_closures(s):
                        if x["k"] in ("Return", "Try") or (x["k"] in ("Break", "Continue")):
                            # break/continue are exits only if they leave the block: i.e. not nested in an inner loop
                            exits.append((x["k"], x["sp"][0]))
                ok = not [x for x in exits if x[0] in ("Return", "Try")]
                run.ob(rule, key, ok, site(rel, e["sp"]),
                       f"{recv}.{opener}() … {closer}() in the same block" + ("" if ok else f"; early exit {exits[0][0]} at line {exits[0][1]} skips the {closer}()"))
    return n


def r05_3(run, model):
    run.rule("R05.3", "scope openers and closers (push_scope/pop_scope, begin_closure/end_closure, push_layer/pop_layer) are paired "
                      "in the same block with no return/? between them")
    n = 0
    for rel in (CHECK, TOPLEVEL, LIFT):
        n += paired_in_block(run, model, rel, "R05.3")
    run.floor("scope opener sites", n, 10)


def r05_4(run, model):
    run.rule("R05.4", "a loop that binds a pattern per iteration (match arms) opens its scope before binding and closes it inside "
                      "the same loop body, so one arm's variables are not visible in another arm")
    n = 0
    for rel in (CHECK,):
        for f in model.fns(rel):
            if f.body is None:
                continue
            for loop in S.find(f.body, "For"):
                body = loop["body"]
                stmts = body["stmts"]
                binder_idx = [i for i, s in enumerate(stmts) if any(True for _ in S.calls(s, "check_pat"))]
                if not binder_idx:
                    continue
                # only loops over alternatives: the pattern argument is a field of the loop variable (arm.pat)
                loopvars = set(S.pat_bindings(loop["pat"]))
                per_iter = False
                for i in binder_idx:
                    for c in S.calls(stmts[i], "check_pat"):
                        for a in c["args"]:
                            if a["k"] == "Field" and S.is_path(a["base"]) and a["base"]["segs"][0] in loopvars and a["member"] == "pat":
                                per_iter = True
                if not per_iter:
                    continue
                n += 1
                first = binder_idx[0]
                opened = [i for i, s in enumerate(stmts[:first]) if s["k"] == "ExprStmt" and s["expr"]["k"] == "MethodCall" and s["expr"]["method"] == "push_scope"]
                closed = [i for i, s in enumerate(stmts) if i > first and s["k"] == "ExprStmt" and s["expr"]["k"] == "MethodCall" and s["expr"]["method"] == "pop_scope"]
                ok = bool(opened) and bool(closed)
                if ok:
                    # every statement that type-checks the arm body lies before the pop
                    last_use = max(i for i, s in enumerate(stmts) if any(True for _ in S.calls(s, "check_expr", "infer_expr", "check_pat")))
                    ok = closed[0] > last_use
                run.ob("R05.4", f"{f.qual}|per-arm scope", ok, site(rel, loop["sp"]),
                       "loop over arms: push_scope before check_pat and pop_scope after the arm body, inside the loop body" if ok else
                       "loop over arms binds patterns without opening/closing a scope inside the loop body",
                       witness="`match o { Has(v) => v + 1, Empty => v }` is accepted and Go reads an undeclared variable")
    run.floor("loops binding per-arm patterns", n, 2)


NR_FILE = "crates/compiler/src/typer/name_resolution.rs"


def binder_helpers(model):
    """resolver methods that add exactly the binder they are given: `env.add(<own parameter>, ..)`; name -> index of that parameter among the call arguments"""
    out = {}
    for f in model.fns(NR_FILE):
        if f.body is None or f.impl != "NameResolution":
            continue
        ps = [p["pat"]["name"] for p in f.params() if not p["self"] and p["pat"]["k"] == "PIdent"]
        adds = [c for c in S.walk(f.body) if c["k"] == "MethodCall" and c["method"] == "add" and S.is_path(c["recv"], "env") and c["args"]]
        if len(adds) != 1 or adds[0]["args"][0]["k"] not in ("Path", "Reference", "Unary"):
            continue
        ids = S.idents(adds[0]["args"][0])
        own = [i for i, nm in enumerate(ps) if nm in ids]
        item = any(re.search(r"ast::(Pat|Fn|ClosureParam)\b", p["ty"] or "") for p in f.params() if not p["self"])
        if len(ids) == 1 and len(own) == 1 and not item:
            out[f.name] = own[0]
    return out


def binder_sites(model):
    """(function, node, name argument): every place a binder is introduced - a direct env.add outside the helpers, or a call of a helper"""
    helpers = binder_helpers(model)
    out = []
    for f in model.fns(NR_FILE):
        if f.body is None:
            continue
        for c in S.walk(f.body):
            if c["k"] != "MethodCall" or not c["args"]:
                continue
            if c["method"] == "add" and S.is_path(c["recv"], "env") and f.name not in helpers:
                out.append((f, c, c["args"][0]))
            elif c["method"] in helpers and S.is_path(c["recv"], "self") and len(c["args"]) > helpers[c["method"]]:
                out.append((f, c, c["args"][helpers[c["method"]]]))
    return out


def r05_5(run, model):
    run.rule("R05.5", "shadowing is always legal: a binder is added to the resolver environment without first looking its name up "
                      "(no `env.rfind(name)` before `env.add(name, ..)` in the same function); the closure environment is a copy of the "
                      "enclosing scope, so such a test rejects every parameter that shadows an outer binding")
    NR = "crates/compiler/src/typer/name_resolution.rs"
    n = 0
    for f in model.fns(NR):
        if f.body is None:
            continue
        adds = [c for c in S.walk(f.body) if c["k"] == "MethodCall" and c["method"] == "add" and S.is_path(c["recv"], "env") and c["args"]]
        if not adds:
            continue
        looks = [c for c in S.walk(f.body) if c["k"] == "MethodCall" and c["method"] in ("rfind", "find", "get", "contains", "lookup") and S.is_path(c["recv"], "env") and c["args"]]
        for a in adds:
            n += 1
            at = S.norm_ws(run.facts.text(NR, a["args"][0]["sp"]))
            before = [l for l in looks if S.norm_ws(run.facts.text(NR, l["args"][0]["sp"])) == at and (l["sp"][0], l["sp"][1]) < (a["sp"][0], a["sp"][1])]
            run.ob("R05.5", f"{f.name}|binder `{at}` added without a prior lookup", not before, site(NR, a["sp"]),
                   f"env.add({at}, ..)" + (f" preceded by env.{before[0]['method']}({at}) at line {before[0]['sp'][0]}" if before else " is unconditional"),
                   witness="let x = 10; let f = |x| x + 1; is rejected with `duplicate parameter name x in closure`")
    run.floor("binder insertions in the resolver", len(binder_sites(model)), 3)
    if not n:
        raise AnalysisIncomplete("no env.add(..) found in the resolver")


def r05_6(run, model):
    run.rule("R05.6", "every binder gets a fresh local: the id handed to `env.add(name, id)` comes from fresh_name / fresh_local (a counter), "
                      "never from an interning allocator keyed by the syntax node - generated code (derive) shares one syntax pointer for "
                      "all its nodes, so interned binders would collapse into one variable")
    NR = "crates/compiler/src/typer/name_resolution.rs"
    n = 0
    for f in model.fns(NR):
        if f.body is None:
            continue
        lets = {}
        for l in S.find(f.body, "Local"):
            if l["pat"]["k"] == "PIdent" and l.get("init") is not None:
                lets[l["pat"]["name"]] = l["init"]
        for c in S.walk(f.body):
            if c["k"] != "MethodCall" or c["method"] != "add" or not S.is_path(c["recv"], "env") or len(c["args"]) < 2:
                continue
            n += 1
            v = c["args"][1]
            src = v
            if v["k"] == "Path" and len(v["segs"]) == 1 and v["segs"][0] in lets:
                src = lets[v["segs"][0]]
            callee = S.callee_name(src) if src["k"] in ("Call", "MethodCall") else None
            ok = callee in ("fresh_name", "fresh_local")
            run.ob("R05.6", f"{f.name}|binder id is fresh", ok, site(NR, c["sp"]),
                   f"id passed to env.add comes from `{callee or S.norm_ws(run.facts.text(NR, src['sp']))[:40]}`",
                   witness="#[derive(ToJson)] struct Point { x: int32, y: int32 }: both pattern variables of the generated match become one local; to_json prints x twice")
    run.floor("binder insertions in the resolver", len(binder_sites(model)), 3)
    if not n:
        raise AnalysisIncomplete("no env.add(..) found in the resolver")


def r05_7(run, model):
    run.rule("R05.7", "a let's binder is not visible in its own initialiser: in the resolver's ELet arm the value is resolved before the "
                      "pattern on every path (no path resolves the pattern first)")
    NR = "crates/compiler/src/typer/name_resolution.rs"
    f = model.fn("resolve_expr", NR)
    found = False
    for m in S.find(f.body, "Match"):
        for arm in m["arms"]:
            if not re.match(r"ast::Expr::ELet\{", S.norm_ws(run.facts.text(NR, arm["pat"]["sp"]))):
                continue
            found = True
            # every block that resolves the pattern has resolved the value earlier in the same block (or an enclosing one)
            pats = [c for c in S.walk(arm["body"]) if c["k"] == "MethodCall" and c["method"] == "resolve_pat"]
            vals = [c for c in S.walk(arm["body"]) if c["k"] == "MethodCall" and c["method"] == "resolve_expr" and "value" in S.idents(c)]
            par = S.Parents(arm["body"])
            bad = []
            for p_ in pats:
                blocks = [a for a in par.ancestors(p_) if a["k"] == "Block"]
                ok = False
                for v in vals:
                    if (v["sp"][0], v["sp"][1]) < (p_["sp"][0], p_["sp"][1]) and any(S.span_contains(b["sp"], v["sp"]) for b in blocks[:1] or blocks):
                        ok = True
                if not ok:
                    bad.append(p_["sp"][0])
            run.ob("R05.7", "resolve_expr|ELet resolves the value before the pattern", bool(pats) and bool(vals) and not bad, site(NR, arm["sp"]),
                   f"{len(pats)} resolve_pat / {len(vals)} resolve_expr(value) calls; pattern-first at lines {bad or 'none'}",
                   witness="fn g(f: (int32) -> int32) { let f: (int32) -> int32 = |n| f(n) + 1; .. }: the inner f refers to the new binder instead of the parameter")
        break
    if not found:
        raise AnalysisIncomplete("resolve_expr: ELet arm not found")
    # and those are the only places where resolve_expr introduces pattern binders: a `let` taken apart elsewhere (component by
    # component in the block arm) makes the binders of earlier components visible in later initialisers
    m0 = next(iter(S.find(f.body, "Match")), None)
    if m0 is not None:
        for arm in m0["arms"]:
            head = re.sub(r"\{.*", "", S.norm_ws(run.facts.text(NR, arm["pat"]["sp"])))
            calls = [c for c in S.walk(arm["body"]) if c["k"] == "MethodCall" and c["method"] == "resolve_pat"]
            if not calls:
                continue
            ok = head.endswith("ELet") or head.endswith("EMatch")
            run.ob("R05.7", f"resolve_expr|{head.split('::')[-1]}: patterns are resolved where a let or a match arm is", ok, site(NR, calls[0]["sp"]),
                   f"{len(calls)} resolve_pat call(s) in the arm for {head}",
                   witness="let (a, b) = (b, a) no longer swaps: the `a` of the initialiser resolves to the binder the first component just introduced")


def r05_8(run, model):
    run.rule("R05.8", "a parameter slot keeps the id minted for it: the functions that introduce parameters (resolve_fn, resolve_closure_param) "
                      "never obtain a slot's id by looking the parameter's name up again - a lookup returns the newest binding, so all slots "
                      "of a repeated name would share one local")
    NR = "crates/compiler/src/typer/name_resolution.rs"
    n = 0
    for name in ("resolve_fn", "resolve_closure_param"):
        f = model.fn(name, NR)
        n += 1
        looks = [c for c in S.walk(f.body) if c["k"] == "MethodCall" and c["method"] in ("rfind", "find", "get", "lookup", "resolve") and S.is_path(c["recv"], "env")]
        run.ob("R05.8", f"{name}|parameter slots use the ids minted for them", not looks, site(NR, (looks or [f.node])[0]["sp"]),
               f"lookups of a binder name in the environment while the parameter list is built: {[S.norm_ws(run.facts.text(NR, c['sp']))[:40] for c in looks]}",
               witness="fn first(x: int32, x: string) -> string { x }: both slots get the id of the second x; the Go signature is "
                       "`func first(x__1 int32, x__1 string)` (duplicate argument)")
    run.floor("functions introducing parameters examined", n, 2)


def r05_9(run, model):
    run.rule("R05.9", "the innermost binder of a name wins over a constructor of the same name: wherever resolve_expr turns an identifier into a "
                      "constructor (constructor_path_for on an EPath / the function of an ECall; the EConstr the lowering produced by name "
                      "alone), the local environment is consulted first")
    NR = "crates/compiler/src/typer/name_resolution.rs"
    f = model.fn("resolve_expr", NR)
    local_lookups = {"rfind"}
    for g in model.fns(NR):
        if g.body is not None and any(c["k"] == "MethodCall" and c["method"] == "rfind" for c in S.walk(g.body)) and g.name not in ("resolve_expr", "resolve_fn"):
            params = [p for p in g.params() if not p["self"]]
            if any("ResolveLocalEnv" in (p["ty"] or "") for p in params):
                local_lookups.add(g.name)
    n = 0
    for iff in S.find(f.body, "If"):
        ctor = [c for c in S.walk(iff["cond"]) if c["k"] == "MethodCall" and c["method"] == "constructor_path_for"]
        if not ctor:
            continue
        n += 1
        pos = (ctor[0]["sp"][0], ctor[0]["sp"][1])
        loc = [c for c in S.walk(iff["cond"]) if c["k"] in ("Call", "MethodCall") and S.callee_name(c) in local_lookups and (c["sp"][0], c["sp"][1]) < pos]
        par = S.Parents(f.body)
        arm = next((a for a in par.ancestors(iff) if a["k"] == "Arm"), None)
        head = re.sub(r"\{.*", "", S.norm_ws(run.facts.text(NR, arm["pat"]["sp"]))) if arm else "?"
        run.ob("R05.9", f"resolve_expr|{head}: local binders are consulted before constructors", bool(loc), site(NR, iff["sp"]),
               f"condition: {S.norm_ws(run.facts.text(NR, iff['cond']['sp']))[:110]}",
               witness="enum Axis { X, Y } fn pick(X: Axis) -> Axis { X } returns Axis::X whatever the argument; "
                       "struct point { x: int32, y: int32 } fn magnitude(point: point) -> int32 { point.x + point.y } is rejected")
    ms = list(S.find(f.body, "Match"))
    arm = next((a for a in ms[0]["arms"] if S.norm_ws(run.facts.text(NR, a["pat"]["sp"])).startswith("ast::Expr::EConstr")), None) if ms else None
    if arm is None:
        raise AnalysisIncomplete("resolve_expr: EConstr arm not found")
    loc = [c for c in S.walk(arm["body"]) if c["k"] in ("Call", "MethodCall") and S.callee_name(c) in local_lookups]
    run.ob("R05.9", "resolve_expr|ast::Expr::EConstr: local binders are consulted before constructors", bool(loc), site(NR, arm["sp"]),
           f"local lookups in the arm: {len(loc)} (the lowering marks an identifier as a constructor by its name alone)",
           witness="fn pick(X: Axis) -> Axis { X } with enum Axis in the same file: the body is the constructor X, the parameter is never read")
    run.floor("places where resolve_expr asks for a constructor", n, 2)


def r05_10(run, model):
    run.rule("R05.10", "whether a bare name is a constructor is decided per package: ConstructorIndex::has_variant(package, variant) tests the "
                       "variant only against data reached through `.get(package)` - the index also holds the variants of every imported "
                       "package, and a dependency's variant names must stay ordinary binder names in the importer")
    NR = "crates/compiler/src/typer/name_resolution.rs"
    f = model.fn("has_variant", NR, impl="ConstructorIndex")
    params = [p["pat"]["name"] for p in f.params() if not p["self"] and p["pat"]["k"] == "PIdent"]
    if len(params) < 2:
        raise AnalysisIncomplete("has_variant: (package, variant) parameters not found")
    pkg, var = params[0], params[1]
    par = S.Parents(f.body)
    tests = [c for c in S.walk(f.body) if c["k"] == "MethodCall" and c["method"] in ("contains", "contains_key", "get") and c["args"] and var in S.idents(c["args"][0])]
    if not tests:
        raise AnalysisIncomplete("has_variant: no membership test of the variant found")
    def scoped(c):
        # the receiver chain of the test, or of an enclosing adaptor whose closure contains it, goes through .get(package)
        chain = [c] + [a for a in par.ancestors(c) if a["k"] == "MethodCall"]
        for m in chain:
            r = m["recv"]
            while True:
                if r["k"] == "MethodCall":
                    if r["method"] in ("get", "get_mut") and r["args"] and pkg in S.idents(r["args"][0]):
                        return True
                    r = r["recv"]
                else:
                    break
        return False
    for i, c in enumerate(tests, 1):
        ok = scoped(c)
        run.ob("R05.10", f"has_variant|membership test #{i} is scoped to the package asked about", ok, site(NR, c["sp"]),
               f"test: {S.norm_ws(run.facts.text(NR, c['sp']))[:80]}",
               witness="package Lexer has enum Token { number(int32), plus, total }; in Main `let total = ..; total` stops being a binder: "
                       "`Constructor total not found in environment`")


def r05_11(run, model):
    run.rule("R05.11", "a function body sees its own parameters and nothing of another function: no function of the resolver that takes an "
                       "item (`&ast::Fn`) also takes a local environment, and the environment in which such a function resolves the body "
                       "is one it created itself (`ResolveLocalEnv::new()`)")
    NR = "crates/compiler/src/typer/name_resolution.rs"
    n = 0
    for f in model.fns(NR):
        if f.body is None or not any("ast::Fn" in (p["ty"] or "").replace(" ", "") for p in f.params() if not p["self"]):
            continue
        n += 1
        envp = [p for p in f.params() if not p["self"] and "ResolveLocalEnv" in (p["ty"] or "")]
        run.ob("R05.11", f"{f.name}|takes no local environment from its caller", not envp, site(NR, f.node["sp"]),
               f"parameters of type ResolveLocalEnv: {len(envp)}",
               witness="impl Counter { fn add(self, step: int32) .. fn next(self) { self.n + step() } } with a top-level fn step: the call in `next` "
                       "resolves to add's parameter (`Variable step/1 not found in environment`)")
        calls = [c for c in S.walk(f.body) if c["k"] == "MethodCall" and c["method"] == "resolve_expr"]
        if not calls:
            continue
        fresh = {l["pat"]["name"] for l in S.find(f.body, "Local") if l["pat"]["k"] == "PIdent" and l.get("init") is not None and
                 l["init"]["k"] == "Call" and (S.callee_segs(l["init"]) or [None, None])[-2:] == ["ResolveLocalEnv", "new"]}
        for c in calls:
            envs = [a for a in c["args"] if S.idents(a) & (fresh | {p["pat"].get("name") for p in envp if p["pat"]["k"] == "PIdent"})]
            ok = bool(envs) and all(S.idents(a) & fresh for a in envs)
            run.ob("R05.11", f"{f.name}|the body is resolved in an environment created here", ok, site(NR, c["sp"]),
                   f"environments created in this function: {sorted(fresh) or 'none'}",
                   witness="parameters of an earlier method of the same impl block stay visible in the later ones")
    run.floor("resolver functions taking an item", n, 2)


def r05_12(run, model):
    run.rule("R05.12", "only a one-segment path can name a local binder: every function of the resolver that looks the last segment of a path "
                       "up among the locals tests the path's length first (`Light::on` must stay the constructor when a parameter is called `on`)")
    NR = "crates/compiler/src/typer/name_resolution.rs"
    n = 0
    for f in model.fns(NR):
        if f.body is None:
            continue
        paths = [p["pat"]["name"] for p in f.params() if not p["self"] and p["pat"]["k"] == "PIdent" and re.search(r"ast::Path\b", p["ty"] or "")]
        par = None
        for c in S.walk(f.body):
            if c["k"] != "MethodCall" or c["method"] != "rfind" or not c["args"]:
                continue
            recv_ty_env = any("ResolveLocalEnv" in (p["ty"] or "") and S.is_path(c["recv"], p["pat"].get("name")) for p in f.params() if not p["self"] and p["pat"]["k"] == "PIdent")
            if not recv_ty_env:
                continue
            # which path does the looked-up identifier come from?
            arg = c["args"][0]
            src = set(S.idents(arg))
            if par is None:
                par = S.Parents(f.body)
            for l in S.walk(f.body):
                if l["k"] in ("Local",) and l.get("init") is not None and set(S.pat_bindings(l["pat"])) & src:
                    src |= S.idents(l["init"])
                elif l["k"] == "Let" and set(S.pat_bindings(l["pat"])) & src:
                    src |= S.idents(l["expr"])
                elif l["k"] == "MethodCall" and any(a["k"] == "Closure" and any(set(S.pat_bindings(i)) & src for i in a["inputs"]) for a in l["args"]):
                    src |= S.idents(l["recv"])   # `path.last_ident().and_then(|ident| ..)`: the closure's parameter comes from the receiver
            # paths bound by an enclosing match arm of an `ast::Expr::EPath { path, .. }` kind count as paths too
            cand = [x for x in src if x in paths or x == "path" or x == "constructor"]
            arm_paths = []
            for a in par.ancestors(c):
                if a["k"] == "Arm":
                    arm_paths += [b for b in S.pat_bindings(a["pat"]) if b in src]
            cand = sorted(set(x for x in cand if x in paths) | set(arm_paths))
            if not cand:
                continue
            n += 1
            ok = False
            for pth in cand:
                def is_len(e):
                    return e["k"] == "MethodCall" and e["method"] == "len" and S.is_path(e["recv"], pth)

                def one(e):
                    return e["k"] == "Lit" and str(e.get("value")) == "1"
                for iff in S.find(f.body, "If"):
                    for b in S.walk(iff["cond"]):
                        if b["k"] != "Binary":
                            continue
                        if not ((is_len(b["left"]) and one(b["right"])) or (is_len(b["right"]) and one(b["left"]))):
                            continue
                        if b["op"] in ("!=", "Ne") and (iff["sp"][0], iff["sp"][1]) < (c["sp"][0], c["sp"][1]) and any(x["k"] == "Return" for x in S.walk(iff["then"])):
                            ok = True
                        if b["op"] in ("==", "Eq") and S.span_contains(iff["then"]["sp"], c["sp"]):
                            ok = True
            run.ob("R05.12", f"{f.name}|lookup of the last segment of `{cand[0]}` is limited to one-segment paths", ok, site(NR, c["sp"]),
                   f"lookup: {S.norm_ws(run.facts.text(NR, c['sp']))[:60]}",
                   witness="enum Light { on, off } fn force_on(on: Light) -> Light { Light::on } returns its argument: the qualified constructor "
                           "path is looked up among the locals by its last segment")
    run.floor("local lookups of a path's last segment", n, 2)


def r05_13(run, model):
    run.rule("R05.13", "one pattern or parameter list binds a name once: every direct `env.add(name, ..)` of the resolver is preceded, in its "
                       "function, by a test-and-insert of that name into the set of names the group has bound so far whose failure is "
                       "reported; the set is handed down unchanged through nested patterns, and the elements of one parameter list share "
                       "one set (no scoping rule orders two binders of one group, so `(x, x)` has no meaning to preserve)")
    NR = NR_FILE
    n = 0
    group_fns = {}
    for f in model.fns(NR):
        if f.body is None:
            continue
        gp = [i for i, p in enumerate(q for q in f.params() if not q["self"]) if re.search(r"&mutHashSet<String>", (p["ty"] or "").replace(" ", ""))]
        if gp:
            group_fns[f.name] = (gp[0], [q for q in f.params() if not q["self"]][gp[0]]["pat"].get("name"))
    for f in model.fns(NR):
        if f.body is None:
            continue
        for c in S.walk(f.body):
            if not (c["k"] == "MethodCall" and c["method"] == "add" and S.is_path(c["recv"], "env") and c["args"]):
                continue
            n += 1
            name_ids = S.idents(c["args"][0])
            ok, why = False, "no test of the name against the names already bound by the same pattern / parameter list"
            for iff in S.find(f.body, "If"):
                tests = [m for m in S.walk(iff["cond"]) if m["k"] == "MethodCall" and m["method"] in ("insert", "contains") and m["args"] and
                         (S.idents(m["args"][0]) & name_ids)]
                if not tests or (iff["sp"][0], iff["sp"][1]) > (c["sp"][0], c["sp"][1]):
                    continue
                reports = [x for x in S.walk(iff["then"]) if x["k"] == "MethodCall" and x["method"] in ("error", "push", "push_error", "ice")]
                negated = any(u["k"] == "Unary" and any(t is x for x in S.walk(u) for t in tests) for u in S.walk(iff["cond"])) or tests[0]["method"] == "contains"
                if reports and negated:
                    ok, why = True, f"`{S.norm_ws(run.facts.text(NR, iff['cond']['sp']))[:50]}` reports the repeated name"
            run.ob("R05.13", f"{f.name}|a binder is added only after its name was tested against its group", ok, site(NR, c["sp"]), why,
                   witness="let (x, x) = t; match e { A(n, n) => n, .. }; fn f(a: int32, a: string) -> string { a }: accepted, the rightmost binder "
                           "silently wins (the first one is typed, allocated and dropped)")
    # threading of the group
    m = 0
    for f in model.fns(NR):
        if f.body is None:
            continue
        par = None
        for c in S.walk(f.body):
            if c["k"] != "MethodCall" or c["method"] not in group_fns or not S.is_path(c["recv"], "self"):
                continue
            idx, _ = group_fns[c["method"]]
            if len(c["args"]) <= idx:
                continue
            m += 1
            arg = c["args"][idx]
            own = group_fns.get(f.name, (None, None))[1]
            if par is None:
                par = S.Parents(f.body)
            if f.name == c["method"]:
                ok = own is not None and S.idents(arg) == {own}
                run.ob("R05.13", f"{f.name}|nested patterns share the group of the enclosing pattern", ok, site(NR, c["sp"]),
                       f"group argument of the recursive call: `{S.norm_ws(run.facts.text(NR, arg['sp']))[:40]}`",
                       witness="A((x, y), x): the nested tuple gets a set of its own and the repeated x goes unnoticed")
                continue
            callee = model.fn(c["method"], NR)
            recursive = any(True for _ in S.calls(callee.body, c["method"]))
            if recursive:
                continue   # the entry into a whole pattern: any set that is new for this pattern will do
            # a one-binder callee: the elements of the list it is called for must share the set
            loop = next((a for a in par.ancestors(c) if a["k"] in ("For", "Closure", "While")), None)
            fresh_inline = any(x["k"] == "Call" and (S.callee_segs(x) or [None])[-1] in ("new", "default", "with_capacity") for x in S.walk(arg))
            decl = [l for l in S.find(f.body, "Local") if l["pat"]["k"] == "PIdent" and l["pat"]["name"] in S.idents(arg)]
            inside = loop is not None and any(S.span_contains(loop["sp"], l["sp"]) for l in decl)
            ok = not (loop is not None and (fresh_inline or inside))
            run.ob("R05.13", f"{f.name}|the binders of one list handed to {c['method']} share one group", ok, site(NR, c["sp"]),
                   f"group argument: `{S.norm_ws(run.facts.text(NR, arg['sp']))[:40]}`" + ("; created anew for every element" if not ok else ""),
                   witness="|q: int32, q: string| q: every parameter is tested against an empty set")
    run.floor("binder insertions tested", n, 1)
    run.anchor("group-threading calls examined", str(m))


def r05_14(run, model):
    run.rule("R05.14", "a bare identifier in pattern position is a constructor only if it names an enum variant: the set the lowering consults "
                       "in lower_pat's identifier arm is filled from variant lists alone - a struct has no pattern without field syntax, so "
                       "`let point = ..` / `(0, point) => point` stay binders whatever structs the file declares")
    LOWER = "crates/ast/src/lower.rs"
    f = model.fn("lower_pat", LOWER)
    arm = None
    for m_ in S.find(f.body, "Match"):
        for a in m_["arms"]:
            if re.search(r"Pattern::VarPat\b", S.norm_ws(run.facts.text(LOWER, a["pat"]["sp"]))):
                arm = a
        break
    if arm is None:
        raise AnalysisIncomplete("lower_pat: the arm for an identifier pattern was not found")
    preds = []
    for iff in S.find(arm["body"], "If"):
        if any(st["segs"][-1] == "PConstr" for st in S.find(iff["then"], "Struct")):
            preds += [c for c in S.walk(iff["cond"]) if c["k"] == "MethodCall" and S.is_path(c["recv"], "ctx")]
            # nothing but the declared variants decides: no disjunct looks at the spelling of the name
            foreign = [a for a in S.bool_atoms(iff["cond"]) if not (a["k"] == "MethodCall" and S.is_path(a["recv"], "ctx"))]
            run.ob("R05.14", "lower_pat|only the variant set turns an identifier pattern into a constructor", not foreign, site(LOWER, iff["cond"]["sp"]),
                   f"condition: `{S.norm_ws(run.facts.text(LOWER, iff['cond']['sp']))[:100]}`",
                   witness="let Scale = 3; Scale * 2: a capitalised binder becomes the constructor pattern `Scale` (Constructor Scale not found); an inner "
                           "`let Scale` no longer shadows the parameter Scale")
    if not preds:
        run.ob("R05.14", "lower_pat|an identifier pattern is classified by the variants of the file", True, site(LOWER, arm["sp"]),
               "no constructor pattern is built from a bare identifier here (the resolver decides)")
        return
    for c in preds:
        g = model.fn(c["method"], LOWER, impl="LowerCtx")
        # the set the predicate reads: the outermost field chain below `self` (`self.variant_names`, `self.names.variants`); its last member
        # names the set, and every insertion into a set of that name anywhere in the file (a local moved into the field by shorthand, or
        # the field itself) is what fills it
        chains = []
        for x in S.walk(g.body):
            if x["k"] == "Field":
                mem, b = [x.get("member")], x["base"]
                while b["k"] == "Field":
                    mem.append(b.get("member"))
                    b = b["base"]
                if S.is_path(b, "self"):
                    chains.append(tuple(reversed(mem)))
        chains = [c_ for c_ in set(chains) if not any(o != c_ and o[:len(c_)] == c_ for o in chains)]
        if len(chains) != 1:
            raise AnalysisIncomplete(f"{c['method']}: reads {sorted(chains)}")
        field = chains[0][-1]
        ins, outside, where = [], [], set()
        for col in model.fns(LOWER):
            if col.body is None or col.test:
                continue
            par = None
            for x in S.walk(col.body):
                if not (x["k"] == "MethodCall" and x["method"] in ("insert", "extend")):
                    continue
                r = x["recv"]
                last = r["segs"][-1] if r["k"] == "Path" else (r.get("member") if r["k"] == "Field" else None)
                if last != field:
                    continue
                par = par or S.Parents(col.body)
                ins.append(x)
                where.add(col.name)
                arms = [a for a in par.ancestors(x) if a["k"] == "Arm"]
                top = arms[-1] if arms else None
                if top is None or not re.search(r"Item::Enum\b", S.norm_ws(run.facts.text(LOWER, top["pat"]["sp"]))):
                    outside.append(x)
        src = (", ".join(sorted(where)) or "?",)
        run.ob("R05.14", "lower_pat|an identifier pattern is classified by the variants of the file", bool(ins) and not outside, site(LOWER, c["sp"]),
               f"ctx.{c['method']}() reads `{field}`, filled by {src[0]}: {len(ins)} insertion(s), {len(outside)} outside the enum arm",
               witness="struct point { x: int32, y: int32 } .. let point = point { x: dx, y: 2 }; norm1(point): `Struct point patterns must use "
                       "field syntax`; accepted once the struct is moved to another file of the package")


CASE_PREDICATES = {"is_uppercase", "is_lowercase", "is_ascii_uppercase", "is_ascii_lowercase", "eq_ignore_ascii_case"}  # questions, not the
# to_uppercase()/to_lowercase() transformations (go_symbol_name capitalises the Go name of an extern symbol: a rendering, no decision)


def r05_15(run, model):
    run.rule("R05.15", "what a name refers to never depends on its spelling: goml's identifier grammar gives capital letters no meaning (a "
                       "variant, a struct or a binder may start with any letter), so nothing between the lexer and the typed program asks a "
                       "letter-case question - a resolver that consults the binders only for capitalised names lets `fn f(up: Dir)` with a "
                       "variant `up` resolve the parameter to the constructor")
    front = [rel for rel in model.src_files() if rel.startswith(("crates/ast/", "crates/parser/", "crates/cst/", "crates/lexer/")) or
             rel.startswith("crates/compiler/src/typer/") or rel in ("crates/compiler/src/hir.rs", "crates/compiler/src/env.rs",
                                                                       "crates/compiler/src/compile_match.rs", "crates/compiler/src/derive.rs")]
    n_fns, hits, control = 0, [], 0
    for rel in front:
        for f in model.fns(rel):
            if f.body is None:
                continue
            n_fns += 1
            for x in S.walk(f.body):
                nm = None
                if x["k"] == "MethodCall":
                    nm = x["method"]
                elif x["k"] == "Path" and len(x.get("segs") or []) >= 2 and x["segs"][-2] in ("char", "str", "u8"):
                    nm = x["segs"][-1]
                if nm is None:
                    continue
                if nm.startswith(("is_ascii_", "is_alphanumeric", "is_alphabetic", "is_whitespace", "is_control", "is_numeric")) and nm not in CASE_PREDICATES:
                    control += 1
                if nm in CASE_PREDICATES:
                    hits.append((rel, f, x, nm))
    for rel, f, x, nm in hits:
        run.ob("R05.15", f"{f.qual}|no letter-case test ({nm})", False, site(rel, x["sp"]),
               f"`{nm}` is asked in {f.name}: a decision that follows the capitalisation of a name",
               witness="enum Dir { up, down } fn step(up: int32) -> int32 { up + 1 }: with a capitals-only binder lookup `up` is the constructor; "
                       "a lower-case variant of another file used as a bare pattern becomes a catch-all binder")
    run.ob("R05.15", "front end|no decision follows the capitalisation of a name", not hits, site("crates/compiler/src/typer/name_resolution.rs", None),
           f"{n_fns} functions of lexer, parser, cst, ast, typer, hir, env, compile_match, derive examined; {len(hits)} letter-case tests")
    run.floor("front-end functions scanned for letter-case tests", n_fns, 300)


def run(run, model):
    run.try_rule(r05_7, model)
    run.try_rule(r05_6, model)
    run.try_rule(r05_8, model)
    run.try_rule(r05_9, model)
    run.try_rule(r05_10, model)
    run.try_rule(r05_11, model)
    run.try_rule(r05_12, model)
    run.try_rule(r05_13, model)
    run.try_rule(r05_14, model)
    run.try_rule(r05_15, model)
    run.try_rule(r05_16, model)
    # a use inside a closure keeps its binder through closure conversion only if the capture walk reaches it (shared with C08 R08.1)
    from rules import c08 as _c08
    run.rule("R05.17", "a use inside a closure body still refers to its binder after closure conversion: the capture walk of lift.rs visits every sub-term (shared with C08 R08.1)")
    run.try_rule(_c08.r08_1, model)
    run.try_rule(r05_5, model)
    run.try_rule(r05_1, model)
    run.try_rule(r05_2, model)
    run.try_rule(r05_3, model)
    run.try_rule(r05_4, model)
    run.rule("R05.0", "binders enter the resolver environment only where a pattern, a parameter list or a closure parameter is resolved: every "
                      "function that introduces a binder (env.add, directly or through a one-binder helper) takes an `&ast::Pat`, `&ast::Fn` or "
                      "`&ast::ClosureParam`")
    owners = {}
    for f, c, _ in binder_sites(model):
        owners.setdefault(f.name, f)
    for name, f in sorted(owners.items()):
        ok = any(re.search(r"ast::(Pat|Fn|ClosureParam)\b", p["ty"] or "") for p in f.params() if not p["self"])
        run.ob("R05.0", f"{name}|introduces binders for a pattern or a parameter list", ok, site(NR, f.node["sp"]),
               f"parameters: {[S.norm_ws(p['ty'] or '') for p in f.params() if not p['self']]}")
    run.ob("R05.0", "NameResolution|functions introducing binders", 0 < len(owners) <= 3, site(NR, None), f"functions adding binders: {sorted(owners)}")
