"""C02 Every accepted program yields Go that the Go compiler would accept (table / coverage clauses only)."""
import re
from lib import syn as S, tytrav as T
from lib.core import AnalysisIncomplete, site
from rules import c19

EXPLANATION = (
    "Go validity of an unbounded output language needs a Go type checker applied to outputs; that is NOT decided. Decided: R02.1 "
    "builtin <-> runtime agreement - every callable the type environment hands to users (extern fn of builtin.gom, names added by "
    "add_*_builtins) is defined by the emitted runtime or lowered by name in the call position of the Go back end. R02.2 helper "
    "signature agreement - a runtime helper that earlier passes reference at a constructed type (`missing`) must have a Go result "
    "type able to inhabit it. R02.3 type mapping and type printing are total: tast_ty_to_go_type / go_type_name_for cover every Ty "
    "variant without a catch-all, and the structured Go type printer has an explicit, recursive arm for every GoType former that "
    "contains types (a former that falls to the flat printer prints function types as the bare word `func`). R02.5 builtins that are "
    "lowered only in direct-call position must not be usable as values. R02.6 import bindings - the qualifier used at call sites of "
    "extern Go functions and the binding DCE uses to decide whether an import is live select the same segment of the import path. "
    "R02.7 Go types are declared for every tuple/array/ref type reachable through any type former (shared with C07's traversal "
    "audit). Declared-before-use, unused locals and assignment compatibility of every statement are not decided.")

GOC = "crates/compiler/src/go/compile.rs"
DCE = "crates/compiler/src/go/dce.rs"
GOPP = "crates/compiler/src/pprint/go_pprint.rs"
GOAST = "crates/compiler/src/go/goast.rs"
GOTY = "crates/compiler/src/go/goty.rs"
RUNTIME = "crates/compiler/src/go/runtime.rs"
BUILTINS = "crates/compiler/src/builtins.rs"


def builtin_names(run, model):
    names = {}
    import os
    from lib.core import REPO
    p = os.path.join(REPO, "crates/compiler/src/builtin.gom")
    try:
        src = open(p, encoding="utf-8").read()
    except OSError:
        raise AnalysisIncomplete("builtin.gom not found")
    for m in re.finditer(r"extern\s+fn\s+([A-Za-z_][A-Za-z0-9_]*)\s*\(", src):
        names[m.group(1)] = "builtin.gom"
    for f in model.fns(BUILTINS):
        if f.body is None or not re.fullmatch(r"add_[a-z]+_builtins", f.name):
            continue
        for c in S.calls(f.body, "insert"):
            if c["k"] == "MethodCall" and c["args"]:
                lits = [n["value"] for n in S.walk(c["args"][0]) if n["k"] == "Lit" and n.get("lit") == "Str"]
                for v in lits:
                    names[v] = f.name
    return names


def r02_1(run, model):
    run.rule("R02.1", "every builtin the type environment offers is defined by the emitted runtime (a goast::Fn of that name or a per-type helper "
                      "family of that prefix) or lowered by name in the back end's call position")
    b = builtin_names(run, model)
    run.floor("builtin callables", len(b), 25)
    rt = c19.reserved_names(run, model)
    rt_txt = ""
    for f in model.fns(RUNTIME):
        if f.body is not None:
            rt_txt += S.norm_ws(run.facts.text(RUNTIME, f.body["sp"]))
    goc_lits = set()
    for f in model.fns(GOC):
        if f.body is None:
            continue
        for n in S.walk(f.body):
            if n["k"] == "Lit" and n.get("lit") == "Str":
                goc_lits.add(n["value"])
    for name, src in sorted(b.items()):
        ok = name in rt or f'helper_fn_name("{name}"' in rt_txt or name in goc_lits
        where = "runtime function" if name in rt else ("runtime helper family" if f'helper_fn_name("{name}"' in rt_txt else ("call lowering" if name in goc_lits else "NOWHERE"))
        run.ob("R02.1", f"builtin {name}", ok, site(RUNTIME, None), f"{name} (from {src}) is provided by: {where}",
               witness=f"a program calling {name} is accepted and `go build` reports an undefined function")


def r02_2(run, model):
    run.rule("R02.2", "a runtime helper referenced at a constructed result type must be able to produce that type: `missing` is called as "
                      "string -> T for every match result type T, so its Go definition must not have a fixed struct{} result")
    cm = "crates/compiler/src/compile_match.rs"
    em = model.fn("emissing", cm)
    t = S.norm_ws(run.facts.text(cm, em.body["sp"]))
    poly = "ret_ty:Box::new(ty.clone())" in t
    ms = model.fn("missing", RUNTIME)
    mt = S.norm_ws(run.facts.text(RUNTIME, ms.body["sp"]))
    fixed = re.search(r"ret_ty:Some\(goty::GoType::TUnit\)", mt) is not None
    ok = not (poly and fixed)
    run.ob("R02.2", "missing|result type can inhabit the match type", ok, site(RUNTIME, ms.node["sp"]),
           f"emissing builds missing: string -> <match result type> ({poly}); the runtime defines `func missing(s string) struct{{}}` ({fixed})",
           witness="fn f(b: bool) -> int32 { match b { true => 1 } } : the Go output contains `ret = missing(\"\")` with `ret int32`")


def r02_3(run, model):
    run.rule("R02.3", "type mapping and printing are total: tast_ty_to_go_type and go_type_name_for match every Ty variant without catch-all; the "
                      "structured Go type printer (self-recursive over GoType) has an explicit recursive arm for every GoType former that contains types")
    allv = T.all_variants(model)
    for name in ("tast_ty_to_go_type", "go_type_name_for"):
        trs = [t for t in T.discover(model) if t.fn.name == name]
        if not trs:
            run.ob("R02.3", f"{name}|matches Ty", False, site(GOAST, None), f"{name} not found as a traversal of Ty")
            continue
        t = trs[0]
        run.ob("R02.3", f"{name}|total", not t.catch and set(t.covered) == set(allv), site(t.fn.file, t.match["sp"]),
               f"{len(t.covered)}/{len(allv)} variants explicit, catch-all: {len(t.catch)}",
               witness="a type former is mapped by default code: wrong or missing Go type")
    gt = model.enum("GoType", GOTY)
    child = {}
    for v in gt["variants"]:
        kids = [f["name"] for f in v["fields"] if re.search(r"(?<![A-Za-z])GoType(?![A-Za-z])", f["ty"])]
        if kids:
            child[v["name"]] = kids
    run.anchor("GoType formers containing types (computed)", sorted(child))
    printers = []
    for f in model.fns(GOPP):
        if f.body is None:
            continue
        takes = any(re.search(r"&GoType|&goty::GoType", p["ty"] or "") for p in f.params())
        rec = any(True for _ in S.calls(f.body, f.name))
        if takes and rec:
            printers.append(f)
    run.floor("self-recursive printers over GoType", len(printers), 1)
    # struct types are printed by name (declared separately): TStruct fields are not part of a type expression
    by_name_ok = {"TStruct"}
    nstruct = 0
    for f in printers:
        ms = list(S.find(f.body, "Match"))
        if not ms:
            continue
        m = ms[0]
        cov = {}
        catch = []
        for arm in m["arms"]:
            pt = S.norm_ws(run.facts.text(GOPP, arm["pat"]["sp"]))
            vs = re.findall(r"GoType::([A-Za-z0-9]+)", pt)
            for v in vs:
                cov.setdefault(v, []).append(arm)
            if not vs and S.pat_head(S.pat_alts(arm["pat"])[0])[0] == "any":
                catch.append(arm)
        # only the structured printer is held to this: a flat name printer (TFunc => "func") is lossy by design and must
        # only ever be reached for leaves; the structured printer is the one whose TFunc arm recurses
        tf = cov.get("TFunc", [])
        structured = bool(tf) and all(any(True for _ in S.calls(a["body"], f.name)) for a in tf)
        if not structured:
            continue
        nstruct += 1
        for v, kids in sorted(child.items()):
            if v in by_name_ok:
                continue
            arms = cov.get(v, [])
            ok = bool(arms) and all(any(True for _ in S.calls(a["body"], f.name)) for a in arms)
            run.ob("R02.3", f"{f.name}|{v} printed structurally", ok, site(GOPP, m["sp"]),
                   f"{v} {'has a recursive arm' if ok else ('falls to the flat printer' if not arms else 'arm does not recurse')}",
                   witness="Vec[(int32) -> int32] is printed as `[]func`, which is not a Go type")
    _after_r02_3(run, nstruct)


def _after_r02_3(run, nstruct):
    run.floor("structured Go type printers", nstruct, 1)


def r02_5(run, model):
    run.rule("R02.5", "builtins lowered only in direct-call position (no Go function of their own) are not usable as values: the value position "
                      "(compile_imm) handles them or the front end refuses them")
    b = builtin_names(run, model)
    rt = c19.reserved_names(run, model, exact_only=True)
    f = model.fn("compile_cexpr", GOC)
    inline = set()
    for n in S.walk(f.body):
        if n["k"] == "Lit" and n.get("lit") == "Str" and n["value"] in b and n["value"] not in rt:
            inline.add(n["value"])
    run.floor("builtins lowered by name in call position", len(inline), 5)
    imm = model.fn("compile_imm", GOC)
    it = S.norm_ws(run.facts.text(GOC, imm.body["sp"]))
    handled = all(f'"{n}"' in it for n in inline)
    refused = False
    for rel in ("crates/compiler/src/typer/check.rs",):
        for g in model.fns(rel):
            if g.body is not None and re.search(r"builtin[a-z ]*(cannot|can't|must) be (used as a value|called)", S.norm_ws(run.facts.text(rel, g.body["sp"])), re.I):
                refused = True
    run.ob("R02.5", "call-only builtins|not usable as values", handled or refused, site(GOC, imm.node["sp"]),
           f"lowered by name only in calls: {sorted(inline)}; handled in compile_imm: {handled}; refused by the typer: {refused}",
           witness="let g = ref_get;  emits `var g func(*ref_int32_x) int32 = ref_get`: ref_get is not a Go identifier")
    # the same for foreign functions: the call arm writes `pkg.Symbol`; a foreign function used as a value needs the same translation
    call_knows = "extern_funcs" in S.norm_ws(run.facts.text(GOC, f.body["sp"]))
    if not call_knows:
        raise AnalysisIncomplete("compile_cexpr: the translation of extern functions in call position was not found")
    value_knows = "extern_funcs" in it
    refused_ext = False
    for g in model.fns("crates/compiler/src/typer/check.rs"):
        if g.body is not None and re.search(r"extern[a-z ]*(cannot|can't|must) be (used as a value|called)", S.norm_ws(run.facts.text("crates/compiler/src/typer/check.rs", g.body["sp"])), re.I):
            refused_ext = True
    run.ob("R02.5", "extern functions|translated in value position as in call position", value_knows or refused_ext, site(GOC, imm.node["sp"]),
           f"compile_imm consults extern_funcs: {value_knows}; refused by the typer: {refused_ext}",
           witness="extern \"go\" \"strings\" \"ToUpper\" to_upper(s: string) -> string; let f = to_upper; emits the bare name `to_upper` (declared "
                   "nowhere) and prunes the strings import")


def seg_selector(txt):
    if re.search(r"\.rsplit\('/'\)\.next\(\)|\.split\('/'\)\.(last|next_back)\(\)|rsplit_once\('/'\)", txt):
        return "last"
    if re.search(r"\.split\('/'\)\.next\(\)|split_once\('/'\)", txt):
        return "first"
    return None


def r02_6(run, model):
    run.rule("R02.6", "import bindings agree: the package qualifier the back end writes at extern call sites and the binding name DCE uses for "
                      "import liveness select the same segment of the import path (siblings cross-checked)")
    a = model.fn("go_package_alias", GOC)
    b = model.fn("import_spec_binding", DCE)
    sa = seg_selector(S.norm_ws(run.facts.text(GOC, a.body["sp"])))
    sb = seg_selector(S.norm_ws(run.facts.text(DCE, b.body["sp"])))
    if sa is None or sb is None:
        raise AnalysisIncomplete(f"path-segment selection not recognised: go_package_alias={sa}, import_spec_binding={sb}")
    run.ob("R02.6", "go_package_alias / import_spec_binding|same path segment", sa == sb, site(DCE, b.node["sp"]),
           f"call sites qualify with the {sa} segment; DCE binds the {sb} segment",
           witness="extern \"go\" \"path/filepath\" fn Base(..): the import is pruned as unused while filepath.Base(..) stays in the body")
    run.ob("R02.6", "Go import binding is the last path segment", sa == "last", site(GOC, a.node["sp"]), f"qualifier = {sa} segment (Go binds an import to its last path element)")


# Go name slots whose value is legitimately not produced by go_ident / a *_name constructor (function, struct, field -> reason)
NAME_LEDGER = {
    # (function, node, slot): (what the provenance must mention, reason)
    ("compile_cexpr", "Var", "name"): (r"go_package_alias", "qualified name of an extern Go function: `<package alias>.<go_name>`, where go_name is the Go identifier the user wrote in the extern declaration"),
    ("go_file", "Field", "name"): (r"`field_name`", "field names taken out of the GoType::TStruct built by tuple_to_go_struct_type (compiler-chosen `_N`)"),
    ("go_file", "Struct", "name"): (r"`name`", "struct name taken out of the GoType::TStruct built by tuple_to_go_struct_type (go_type_name_for)"),
}


def _tuple_tails(e):
    if e["k"] == "If" and e.get("else") is not None:
        return _tuple_tails(e["then"]) + _tuple_tails(e["else"])
    if e["k"] == "Match":
        return [t for a in e["arms"] for t in _tuple_tails(a["body"])]
    if e["k"] == "Block":
        if e["stmts"] and e["stmts"][-1]["k"] == "ExprStmt" and not e["stmts"][-1].get("semi"):
            return _tuple_tails(e["stmts"][-1]["expr"])
        return []
    if e["k"] == "Paren":
        return _tuple_tails(e["expr"])
    return [e]


def sanctioned_name_fns(model):
    go_files = [r for r in model.src_files() if r.startswith("crates/compiler/src/go/") or r.endswith("/names.rs")]
    fns = {}
    for rel in go_files:
        for fn in model.fns(rel):
            if fn.body is not None:
                fns.setdefault(fn.name, []).append(fn)
    san = {"go_ident"}
    changed = True
    while changed:
        changed = False
        for name, lst in fns.items():
            if name in san:
                continue
            for fn in lst:
                if (fn.node.get("ret") or "").replace(" ", "") in ("String", "&str", "Option<String>") and any(S.callee_name(c) in san for c in S.calls(fn.body)):
                    san.add(name)
                    changed = True
    return san


def r02_8(run, model):
    run.rule("R02.8", "every Go name slot (`name` / `field` of a goast node built in go::compile) is filled from a literal, a compiler-chosen index, "
                      "go_ident(..) or a name constructor that applies go_ident - followed by def-use through locals; a user-chosen name "
                      "that reaches a slot unmangled is emitted verbatim (keywords, separators) and disagrees with its mangled declaration")
    san = sanctioned_name_fns(model)
    run.anchor("name constructors that apply go_ident (derived)", sorted(san))
    if len(san) < 6:
        raise AnalysisIncomplete("name constructors applying go_ident not found")
    IDX = r"i|idx|index|field_index|n"

    def safe(fn, e, depth=0, seen=None):
        seen = seen if seen is not None else set()
        if e["k"] in ("Call", "MethodCall") and (S.callee_name(e) in san or any(S.callee_name(c) in san for c in S.calls(e))):
            return True, "name constructor"
        if e["k"] == "Lit":
            return True, "literal"
        if e["k"] == "Call" and depth <= 3 and S.callee_name(e):
            # a helper of the Go back end that writes a name from literals and numbers (positional field names, wrapper parameters)
            hs = [h for rel_ in model.src_files() if rel_.startswith("crates/compiler/src/go/") for h in model.fns(rel_)
                  if h.name == S.callee_name(e).split("::")[-1] and h.body is not None and (h.node.get("ret") or "").replace(" ", "") == "String"]
            if len(hs) == 1 and hs[0] is not fn and hs[0].body["stmts"]:
                last = hs[0].body["stmts"][-1]
                if last["k"] == "ExprStmt" and not last.get("semi"):
                    okh, whyh = safe(hs[0], last["expr"], depth + 1, set())
                    argsok = all(safe(fn, a, depth + 1, seen)[0] or a["k"] in ("Unary", "Lit") and safe(fn, a.get("expr", a), depth + 1, seen)[0] for a in e["args"])
                    if okh and argsok:
                        return True, f"name helper {hs[0].name}"
        if e["k"] == "Unary" and e.get("op") == "*":
            return safe(fn, e["expr"], depth, seen)
        if e["k"] == "Macro" and e["name"] == "format":
            args = e.get("args") or []
            if args and args[0]["k"] == "Lit":
                bad = []
                for a in args[1:]:
                    ok, why = safe(fn, a, depth + 1, seen)
                    if not ok:
                        bad.append(why)
                return (not bad), ("format of safe parts" if not bad else "format! with " + bad[0])
        if e["k"] == "MethodCall" and e["method"] in ("clone", "to_string", "to_owned", "as_str", "into"):
            return safe(fn, e["recv"], depth, seen)
        if e["k"] == "Ref":
            return safe(fn, e["expr"], depth, seen)
        if e["k"] == "If" and e.get("else") is not None:
            for br in (e["then"], e["else"]):
                ok, why = safe(fn, br, depth + 1, seen)
                if not ok:
                    return False, why
            return True, "both branches safe"
        if e["k"] == "Block" and e["stmts"] and e["stmts"][-1]["k"] == "ExprStmt" and not e["stmts"][-1]["semi"]:
            return safe(fn, e["stmts"][-1]["expr"], depth + 1, seen)
        if e["k"] == "Match":
            for arm in e["arms"]:
                ok, why = safe(fn, arm["body"], depth + 1, seen)
                if not ok:
                    return False, why
            return True, "all arms safe"
        if e["k"] == "Path" and len(e["segs"]) == 1:
            v = e["segs"][0]
            if re.fullmatch(IDX, v):
                return True, "index"
            if any((not p_["self"]) and p_["pat"].get("name") == v and re.fullmatch(r"&?(usize|u8|u16|u32|u64|i8|i16|i32|i64|isize)", (p_["ty"] or "").replace(" ", ""))
                   for p_ in fn.params()):
                return True, "number"
            if (v in seen) or depth > 4:
                return False, f"`{v}` (cyclic definition)"
            seen.add(v)
            defs = [l for l in S.find(fn.body, "Local") if v in S.pat_bindings(l["pat"]) and l.get("init") is not None]
            if defs:
                for d in defs:
                    dp = S.strip_refs(d["pat"])
                    if dp["k"] == "PTuple":
                        # `let (helper, helper_ty) = if .. { (a, b) } else { (c, d) }`: the component at the binder's position
                        pos = [i_ for i_, pe in enumerate(dp["elems"]) if v in S.pat_bindings(pe)]
                        comps = _tuple_tails(d["init"])
                        if len(pos) == 1 and comps and all(t_["k"] == "Tuple" and len(t_["elems"]) == len(dp["elems"]) for t_ in comps):
                            ok, why = True, "tuple component built safely"
                            for t_ in comps:
                                ok, why = safe(fn, t_["elems"][pos[0]], depth + 1, set(seen))
                                if not ok:
                                    break
                            if not ok:
                                return False, f"`{v}` <- {why}"
                            continue
                    ok, why = safe(fn, d["init"], depth + 1, seen)
                    if not ok:
                        return False, f"`{v}` <- {why}"
                return True, "local built safely"
            return False, f"`{v}` (a binding of unknown provenance)"
        return False, "`" + S.norm_ws(run.facts.text(GOC, e["sp"]))[:50] + "`"

    n = 0
    for fn in model.fns(GOC):
        if fn.body is None:
            continue
        for st in S.find(fn.body, "Struct"):
            if not ("goast" in st["segs"] or (len(st["segs"]) >= 2 and st["segs"][-2] in ("Expr", "Stmt"))):
                continue
            for fl in st["fields"]:
                if fl["name"] not in ("name", "field"):
                    continue
                n += 1
                ok, why = safe(fn, fl["expr"])
                led = NAME_LEDGER.get((fn.name, st["segs"][-1], fl["name"]))
                if led is not None and not re.search(led[0], why):
                    led = None      # the entry excuses one way of building the name, not the slot
                led = led[1] if led is not None else None
                if ok:
                    continue
                run.ob("R02.8", f"{fn.name}|{st['segs'][-1]}.{fl['name']} <- {why}", led is not None, site(GOC, fl["sp"]),
                       f"{'::'.join(st['segs'][-2:])}.{fl['name']} is filled from {why}" + (f"; ledger: {led}" if led else ""),
                       witness="trait Interval { fn map(..) } used through dyn: the call site selects `.vtable.map(` while the vtable struct declares `_goml_map` (and `map` is a Go keyword)")
    run.ob("R02.8", "go::compile|name slots examined", True, None, f"{n} name/field slots of goast nodes checked for provenance")
    run.floor("Go name slots", n, 40)


def r02_9(run, model):
    run.rule("R02.9", "an initialiser kept only for its effects is re-emitted as a legal Go statement: every statement DCE pushes under an "
                      "`expr_has_side_effects(&v)` test is built by a constructor that can fall back to `_ = v` (Go rejects value-only "
                      "calls such as append(..)/int32(len(..)) and every non-call expression as a statement: `... is not used`)")
    DCE = "crates/compiler/src/go/dce.rs"
    f = model.fn("dce_block_with_live", DCE)
    par = S.Parents(f.body)
    n = 0
    helpers = {g.name: g for g in model.fns(DCE) if g.body is not None}
    for c in S.walk(f.body):
        if c["k"] != "MethodCall" or c["method"] != "push" or not c["args"]:
            continue
        guarded = None
        for a in par.ancestors(c):
            if a["k"] == "If" and S.span_contains(a["then"]["sp"], c["sp"]) and any(True for _ in S.calls(a["cond"], "expr_has_side_effects")):
                guarded = a
                break
        if guarded is None:
            continue
        n += 1
        arg = c["args"][0]
        at = S.norm_ws(run.facts.text(DCE, arg["sp"]))
        ok = False
        how = f"pushes `{at[:50]}`"
        if arg["k"] == "Call" and S.callee_name(arg) in helpers:
            hb = S.norm_ws(run.facts.text(DCE, helpers[S.callee_name(arg)].body["sp"]))
            ok = "Stmt::Expr" in hb and re.search(r'Stmt::Assignment\{name:"_"', hb) is not None
            how = f"built by {S.callee_name(arg)}(..), which " + ("falls back to `_ = v`" if ok else "cannot produce `_ = v`")
        elif re.search(r'Stmt::Assignment\{name:"_"', at):
            ok = True
        run.ob("R02.9", f"dce_block_with_live|re-emitted effect #{n} is a legal statement", ok, site(DCE, c["sp"]), how,
               witness="let _ = vec_len(w); let _ = vec_push(w, 2); emit the statements `int32(len(w))` and `append(w, 2)`: Go rejects both (value is not used)")
    run.floor("re-emission sites in DCE", n, 3)


def r02_10(run, model):
    run.rule("R02.10", "imports are pruned last: in eliminate_dead_vars the unused-import pass runs after every pass that removes code "
                       "(an import whose only uses sat in pruned functions would survive: Go rejects `imported and not used`)")
    DCE = "crates/compiler/src/go/dce.rs"
    f = model.fn("eliminate_dead_vars", DCE)
    calls = [(c["sp"][0], c["sp"][1], S.callee_name(c)) for c in S.walk(f.body) if c["k"] == "Call" and (S.callee_name(c) or "").startswith(("prune_", "dce_"))]
    order = [n_ for _, _, n_ in sorted(calls)]
    if "prune_unused_imports" not in order:
        raise AnalysisIncomplete("eliminate_dead_vars: prune_unused_imports call not found")
    ok = order[-1] == "prune_unused_imports"
    run.ob("R02.10", "eliminate_dead_vars|imports pruned after dead code", ok, site(DCE, f.node["sp"]), f"pass order: {order}",
           witness="a program that never prints keeps `import \"fmt\"`: its only users were runtime helpers removed by prune_dead_functions")


def r02_11(run, model):
    run.rule("R02.11", "the collector of helper type declarations starts from everything that is emitted: gen_type_definition writes the field "
                       "types of every struct and enum definition (tast_ty_to_go_type), so collect_runtime_types visits the fields of the "
                       "same tables, not only the function bodies")
    GO = "crates/compiler/src/go/compile.rs"
    em = model.fn("gen_type_definition", GO)
    co = model.fn("collect_runtime_types", GO)

    def tables(f, leaf):
        out = {}
        for loop in S.walk(f.node):
            if loop["k"] != "For":
                continue
            tabs = [c["method"] for c in S.walk(loop["iter"]) if c["k"] == "MethodCall" and c["method"] in ("structs", "enums", "extern_types")]
            if tabs and any(True for _ in S.calls(loop["body"], leaf)):
                for t in tabs:
                    out.setdefault(t, loop)
        return out
    E = tables(em, "tast_ty_to_go_type")
    if not E:
        raise AnalysisIncomplete("gen_type_definition: no definition table with emitted field types found")
    C = tables(co, "collect_type")
    for t, loop in sorted(E.items()):
        ok = t in C
        run.ob("R02.11", f"collect_runtime_types|fields of {t}() are collected", ok, site(GO, (C.get(t) or loop)["sp"]),
               f"gen_type_definition emits field types of {t}(); collector visits them: {ok}",
               witness="enum Shape { Dot, Segment((int32,int32),(int32,int32)) } with only Shape::Dot constructed: the output declares "
                       "`type Segment struct { _0 Tuple2_int32_int32 … }` and never declares Tuple2_int32_int32")
    # the sibling collector that decides which `dyn Trait` types are declared starts from the same places
    dy = model.fn("collect_dyn_requirements", GO)
    leafs = [g["name"] for g in S.walk(dy.node) if g.get("k") == "Fn" and g.get("name", "").startswith("collect_ty")] or ["collect_ty"]
    D = tables(dy, leafs[0])
    for t, loop in sorted(E.items()):
        ok = t in D
        run.ob("R02.11", f"collect_dyn_requirements|fields of {t}() are collected", ok, site(GO, (D.get(t) or dy.node)["sp"]),
               f"gen_type_definition emits field types of {t}(); the dyn collector visits them: {ok}",
               witness="struct Widget { title: dyn Show, width: int32 } with no function mentioning dyn Show: `title dyn__Show` is emitted, "
                       "`type dyn__Show` is not (undefined: dyn__Show)")
    # the vtable of a trait used behind dyn spells out the trait's method signatures (trait_method_sigs reads trait_defs)
    sigs = model.fn("trait_method_sigs", GO)
    if "trait_defs" in S.norm_ws(run.facts.text(GO, sigs.body["sp"])):
        seen = "trait_defs" in S.norm_ws(run.facts.text(GO, co.node["sp"])) and any(
            "trait_defs" in S.norm_ws(run.facts.text(GO, l["iter"]["sp"])) and any(True for _ in S.calls(l["body"], "collect_type"))
            for l in S.walk(co.node) if l["k"] == "For")
        run.ob("R02.11", "collect_runtime_types|types in trait method signatures are collected", seen, site(GO, co.node["sp"]),
               f"vtables are built from trait_defs; the collector visits them: {seen}",
               witness="trait Plot { fn at(Self, (int32, int32)) -> Ref[int32]; } used as Vec[dyn Plot] with no impl: dyn__Plot_vtable mentions "
                       "Tuple2_int32_int32 and ref_int32_x, neither is declared")
    run.floor("definition tables whose field types are emitted", len(E), 2)


NO_QUALIFIER_ITEMS = {
    "Package": "the package clause names no other package",
    "Import": "the import declarations are what is being pruned",
    "Interface": "method signatures of generated interfaces use goml-declared type names (extern types go through their alias)",
}


def r02_12(run, model):
    run.rule("R02.12", "import pruning sees every place the back end writes a package qualifier: collect_packages_in_item looks into every "
                       "goast::Item that can carry `pkg.Name` - function and method bodies and the `type X = pkg.Name` alias that "
                       "gen_type_definition emits for every extern type")
    DCE = "crates/compiler/src/go/dce.rs"
    f = model.fn_or_role("collect_packages_in_item", DCE, "prune_unused_imports", r"Item::(Fn|Method)\b")
    ms = list(S.find(f.body, "Match"))
    if not ms:
        raise AnalysisIncomplete("collect_packages_in_item: match on the item not found")
    seen = 0
    # the walkers the item walker hands blocks, statements and expressions to
    family = {g.name for g in model.scope_fns(f, depth=3)} - {f.name}
    for arm in ms[0]["arms"]:
        heads = [S.pat_head(a) for a in S.pat_alts(arm["pat"])]
        body = arm["body"]
        does = any(c["k"] in ("Call", "MethodCall") and ((S.callee_name(c) or "").startswith("collect_packages_in_") or (S.callee_name(c) or "") in family or
                   (c["k"] == "MethodCall" and c["method"] == "insert")) for c in S.walk(body))
        for h in heads:
            v = h[1][-1] if h[0] == "variant" else "_"
            seen += 1
            led = NO_QUALIFIER_ITEMS.get(v)
            ok = does or led is not None
            run.ob("R02.12", f"collect_packages_in_item|{v} is searched for package qualifiers", ok, site(DCE, arm["sp"]),
                   "arm records uses" if does else (f"ignored; ledger: {led}" if led else "arm ignores the item and the ledger has no reason for it"),
                   witness="extern type Time from \"time\" whose only users are pruned: `type Time = time.Time` stays, `import \"time\"` is removed: undefined: time")
    run.floor("goast::Item variants examined by the import pruner", seen, 5)


def r02_14(run, model):
    run.rule("R02.14", "a Go function bound as `extern … -> unit` has no result, so its call is never used as a Go value: every arm of the "
                       "statement compilers (compile_aexpr*) that binds or assigns the value of an ECall first asks a predicate that "
                       "recognises a unit-typed call of an extern function and emits the call as a statement")
    GO = "crates/compiler/src/go/compile.rs"
    preds = set()
    for g in model.fns(GO):
        if g.body is None:
            continue
        t = S.norm_ws(run.facts.text(GO, g.node["sp"]))
        if "extern_funcs" in t and "TUnit" in t and re.search(r"->bool\{", t):
            preds.add(g.name)
    # helpers that ask a predicate themselves (followed one level)
    via = {g.name for g in model.fns(GO) if g.body is not None and preds and g.name not in preds and not g.name.startswith("compile_aexpr")
           and any(True for _ in S.calls(g.body, *preds))}
    n = 0
    for f in model.fns(GO):
        if f.body is None or not f.name.startswith("compile_aexpr"):
            continue
        for m in S.find(f.body, "Match"):
            for arm in m["arms"]:
                pt = S.norm_ws(run.facts.text(GO, arm["pat"]["sp"]))
                catch_all = pt == "_" or re.fullmatch(r"\w+", pt) is not None
                if "CExpr::ECall" not in pt and not catch_all:
                    continue
                if catch_all and not any("CExpr::" in S.norm_ws(run.facts.text(GO, a["pat"]["sp"])) for a in m["arms"]):
                    continue  # not a match on a CExpr
                if catch_all and any("CExpr::ECall" in S.norm_ws(run.facts.text(GO, a["pat"]["sp"])) for a in m["arms"]):
                    continue  # calls have an arm of their own
                binds = [st for st in S.walk(arm["body"]) if st["k"] == "Struct" and st["segs"][-1] in ("VarDecl", "Assignment", "Return")
                         and (any(True for _ in S.calls(st, "compile_cexpr")) or (catch_all and st["segs"][-1] == "Return"))]
                delegated = bool(via) and any(True for _ in S.calls(arm["body"], *via))
                if not binds and not delegated:
                    continue
                n += 1
                asks = (bool(preds) and any(True for _ in S.calls(arm["body"], *preds))) or delegated
                run.ob("R02.14", f"{f.name}|ECall value site #{n} distinguishes result-less extern calls", asks, site(GO, arm["sp"]),
                       f"predicates recognising a unit-typed extern call: {sorted(preds) or 'none'}; asked in this arm: {asks}",
                       witness="extern \"go\" \"time\" sleep(d: Duration) -> unit; fn nap(n: int32) -> unit { sleep(duration(n)) } emits "
                               "`ret7 = time.Sleep(t3)`: time.Sleep has no result, Go rejects the assignment")
    run.floor("arms that bind the value of an ECall", n, 3)


def r02_15(run, model):
    run.rule("R02.15", "Go DCE's backward pass never drops a statement after it has counted that statement's uses: in every arm of "
                       "dce_block_with_live a `continue` (statement left out) precedes the add_uses_* calls of the arm - otherwise the "
                       "variables the dropped statement read stay live and their declarations survive unused")
    DCE = "crates/compiler/src/go/dce.rs"
    f = model.fn("dce_block_with_live", DCE)
    n = 0
    bad = []
    for m in S.find(f.body, "Match"):
        for arm in m["arms"]:
            uses = [c for c in S.walk_no_closures(arm["body"]) if c["k"] == "Call" and (S.callee_name(c) or "").startswith("add_uses")]
            conts = [c for c in S.walk_no_closures(arm["body"]) if c["k"] == "Continue"]
            if not uses:
                continue
            n += 1
            first_use = min((c["sp"][0], c["sp"][1]) for c in uses)
            late = [c for c in conts if (c["sp"][0], c["sp"][1]) > first_use]
            head = re.sub(r"\{.*", "", S.norm_ws(run.facts.text(DCE, arm["pat"]["sp"])))
            run.ob("R02.15", f"dce_block_with_live|{head}: nothing is dropped after its uses were counted", not late, site(DCE, (late or [arm])[0]["sp"]),
                   f"{len(uses)} add_uses call(s); `continue` after the first of them: {len(late)}",
                   witness="let larger = if a > b { a } else { b }; with larger dead: both branches are emptied, the `if` is left out after a > b's "
                           "temporary was marked live: `var t2 bool = a > b` stays, Go: declared and not used")
    run.floor("statement arms of the backward pass that count uses", n, 6)


def r02_16(run, model):
    run.rule("R02.16", "the binding of `switch x := e.(type)` is kept whenever a clause uses it: the filter on the binding evaluates to true "
                       "for every valuation in which the case blocks or the default block read the name (whatever else it consults)")
    DCE = "crates/compiler/src/go/dce.rs"
    f = model.fn("dce_block_with_live", DCE)
    n = 0
    for c in S.walk(f.body):
        if c["k"] != "MethodCall" or c["method"] != "filter" or not S.is_path(c["recv"], "bind") or not c["args"] or c["args"][0]["k"] != "Closure":
            continue
        n += 1
        body = c["args"][0]["body"]
        while body["k"] == "Block" and len(body.get("stmts") or []) == 1:
            st = body["stmts"][0]
            body = st.get("expr") or st
        atoms = S.bool_atoms(body)
        texts = sorted({S.norm_ws(run.facts.text(DCE, a["sp"])) for a in atoms})
        used_atoms = [t for t in texts if re.search(r"(cases|default)\w*\.contains\(", t)]
        others = [t for t in texts if t not in used_atoms]
        ok = bool(used_atoms)
        counter = None
        import itertools
        for vals in itertools.product([False, True], repeat=len(texts)):
            env = dict(zip(texts, vals))
            if not any(env[t] for t in used_atoms):
                continue
            if not S.bool_eval(body, lambda a: env[S.norm_ws(run.facts.text(DCE, a["sp"]))]):
                ok = False
                counter = {k: v for k, v in env.items()}
                break
        run.ob("R02.16", "dce_block_with_live|type-switch binding kept when a clause reads it", ok, site(DCE, c["sp"]),
               f"filter atoms: {texts}" + (f"; dropped although used when {counter}" if counter else ""),
               witness="match s { Circle(r) => r, .. } followed by another use of s: the binding is dropped because s is live after the switch, "
                       "the clause still reads s__1._0 on the interface-typed variable")
    if n == 0:
        raise AnalysisIncomplete("dce_block_with_live: filter on the type-switch binding not found")


def r02_18(run, model):
    run.rule("R02.18", "Go rejects a type-switch binding that no clause uses, and inside the clauses of `switch x := x.(type)` the binding "
                       "shadows the variable of the same name: the live set Go DCE hands to the clause blocks therefore has the binding's name "
                       "taken out (a use of x after the switch is not a use of the binding), so that the decision to keep the binding sees "
                       "only uses inside the clauses")
    DCE = "crates/compiler/src/go/dce.rs"
    f = model.fn("dce_block_with_live", DCE)
    arm = None
    for m in S.find(f.body, "Match"):
        for a in m["arms"]:
            if "SwitchType" in S.norm_ws(run.facts.text(DCE, a["pat"]["sp"])):
                arm = a
    if arm is None:
        raise AnalysisIncomplete("dce_block_with_live: SwitchType arm not found")
    from rules import c07
    calls = [c for c in S.walk(arm["body"]) if c["k"] == "Call" and S.callee_name(c) == f.name and len(c["args"]) >= 2]
    if not calls:
        raise AnalysisIncomplete("SwitchType arm: recursive calls for the clause blocks not found")
    for i, c in enumerate(calls, 1):
        a = c["args"][1]
        chain = [S.norm_ws(run.facts.text(DCE, a["sp"]))]
        for idn in S.idents(a):
            chain += c07._origin_chain(run, f, DCE, c, idn, depth=2)
        removed = False
        names = {x for x in S.idents(a)}
        for r in S.walk(arm["body"]):
            if r["k"] == "MethodCall" and r["method"] == "remove" and r["recv"]["k"] == "Path" and r["recv"]["segs"][0] in names:
                removed = True
        raw = re.fullmatch(r"&?live", chain[0]) is not None
        run.ob("R02.18", f"dce_block_with_live|clause block #{i} is analysed without the binding's outer liveness", removed and not raw, site(DCE, c["sp"]),
               f"live set passed: {' <- '.join(chain)[:100]}; binding name removed from it: {removed}",
               witness="let a = match s { Dot => 1, Circle(_) => 2 }; a + show(s): `switch s := s.(type)` keeps a binding no clause reads, "
                       "Go: s declared and not used")


def r02_20(run, model):
    run.rule("R02.20", "a definition lists each member once: define_enum, define_struct and define_trait hand the names of their variants / "
                       "fields / methods to a test that reports a repeated name (a `!seen.insert(name)` whose failure pushes a diagnostic) - "
                       "a repeated variant is emitted as two `type V struct` declarations and two `case V:` clauses, a repeated field twice "
                       "in one Go struct")
    TL = "crates/compiler/src/typer/toplevel.rs"
    testers = set()
    for g in model.fns(TL):
        if g.body is None:
            continue
        for iff in S.find(g.body, "If"):
            c = S.norm_ws(run.facts.text(TL, iff["cond"]["sp"]))
            if re.search(r"!\w+\.insert\(", c) and any(x["k"] == "MethodCall" and x["method"] == "push" for x in S.walk(iff["then"])):
                testers.add(g.name)
    for name, member in (("define_enum", "variants"), ("define_struct", "fields"), ("define_trait", "method_sigs")):
        f = model.fn(name, TL)
        direct = name in testers and re.search(r"\." + member + r"\b", S.norm_ws(run.facts.text(TL, f.body["sp"]))) is not None and any(
            re.search(r"!\w+\.insert\(", S.norm_ws(run.facts.text(TL, i_["cond"]["sp"]))) for i_ in S.find(f.body, "If"))
        via = [c for c in S.walk(f.body) if c["k"] == "Call" and S.callee_name(c) in testers - {name} and
               any(re.search(r"\." + member + r"\b", S.norm_ws(run.facts.text(TL, a["sp"]))) for a in c["args"])]
        run.ob("R02.20", f"{name}|repeated {member} are reported", direct or bool(via), site(TL, f.node["sp"]),
               f"uniqueness test on .{member}: " + (f"{S.callee_name(via[0])}(..)" if via else ("inline" if direct else "none")),
               witness="enum Cmd { Go(int32), Stop, Stop } emits `type Stop struct{}` twice and two `case Stop:`; struct Point { x: int32, y: int32, "
                       "x: int32 } emits the field x twice; a trait declaring one method twice keeps the last signature")


def r02_21(run, model):
    run.rule("R02.21", "the Go printer never lets a line end after an operand: Go's lexer inserts a semicolon at a newline that follows an "
                       "identifier, a literal or a closing bracket, so in the arm that prints a binary operation no breakable document "
                       "(`RcDoc::line`, `softline`, ..) stands between the left operand and the operator")
    GOPP = "crates/compiler/src/pprint/go_pprint.rs"
    arms = []
    for f in model.fns(GOPP):
        if f.body is None or f.name != "to_doc":
            continue
        for m_ in S.find(f.body, "Match"):
            for arm in m_["arms"]:
                if re.match(r"Expr::BinaryOp\{", S.norm_ws(run.facts.text(GOPP, arm["pat"]["sp"]))):
                    arms.append(arm)
    if not arms:
        raise AnalysisIncomplete("go_pprint: the arm printing a binary operation was not found")
    for arm in arms:
        ops = [c for c in S.walk(arm["body"]) if c["k"] == "MethodCall" and c["method"] == "doc" and S.is_path(c["recv"], "op")]
        if not ops:
            raise AnalysisIncomplete("go_pprint: the operator's document was not found in the binary-operation arm")
        op_pos = (ops[0]["sp"][0], ops[0]["sp"][1])
        breaks = [c for c in S.walk(arm["body"]) if c["k"] == "Call" and (S.callee_segs(c) or [None])[-1] in ("line", "line_", "softline", "softline_", "hardline")
                  and (c["sp"][0], c["sp"][1]) < op_pos]
        run.ob("R02.21", "Expr::to_doc|no line break between the left operand and a binary operator", not breaks, site(GOPP, (breaks or [arm])[0]["sp"]),
               f"breakable documents before the operator: {len(breaks)}",
               witness="a concatenation wider than the page width is printed as `lhs` / `    + rhs` on two lines: Go ends the statement after "
                       "`lhs` and the file no longer parses")


def r02_19(run, model):
    from rules import c01 as _c01
    _c01.r01_9(run, model, only_fns=(r"::go::",), rid="R02.19", floor=18)


def r02_22(run, model):
    """G-NEST: a statement walker of the Go back end that passes the forms it does not care about through a catch-all still descends into
    every statement form that carries nested statements"""
    from lib import passes as P
    run.rule("R02.22", "every recursive walker over goast::Stmt that has a catch-all arm names each statement form that carries a block "
                       "(computed from the enum: a field whose type mentions Block) in an unguarded arm of its own - a nested `switch x := x.(type)` "
                       "inside a form left to the catch-all is not rewritten / not seen (walkers without a catch-all are total by rustc)")
    trs = P.discover(model, files_prefix="crates/compiler/src/go", min_cover=2, enums={"Stmt"}, include_pprint=False)
    n = 0
    for t in trs:
        if "goast" not in "::".join(t.enum["mod"]) or not t.catch or not P.self_recursive(t.fn):
            continue
        n += 1
        blockv = [v["name"] for v in t.enum["variants"] if any("Block" in f["ty"] for f in v["fields"])]
        for v in blockv:
            arms = t.covered.get(v, [])
            ok = any(arm.get("guard") is None for arm, _alt in arms)
            run.ob("R02.22", f"{t.fn.qual}|Stmt::{v} has an arm of its own", ok, site(t.fn.file, t.match["sp"]),
                   "explicit unguarded arm" if ok else ("only guarded arms" if arms else "left to the catch-all: the blocks it carries are not walked"),
                   witness="match q { Circle(r) => { while go { match q { Circle(_) => .., Dot => .. } } } }: the inner type switch on the rebound "
                           "`q` (a struct inside `case Circle:`) survives inside the `for` - Go: q (variable of struct type) is not an interface")
    run.floor("goast::Stmt walkers with a catch-all", n, 2)


def run(run, model):
    # the linked program is emitted Go too: lambda lifting reads callee signatures in concatenation order, so a link order other than
    # dependency-first leaves a closure-returning import ill-typed (shared with C14 R14.1), and a unit linked against an interface it was
    # not built with calls functions at another arity / layout (shared with C15 R15.4)
    from rules import c14 as _c14l, c15 as _c15l
    run.try_rule(_c14l.r14_1, model)
    run.try_rule(_c15l.r15_4, model)
    # liveness / effect walkers of the Go dead-code pass visit a sub-term whatever its shape (shared with C01 R01.14)
    from rules import c01 as _c01w
    run.try_rule(_c01w.r01_14, model, "R02.23", r"/go/dce\.rs$")
    run.try_rule(r02_1, model)
    run.try_rule(r02_2, model)
    run.try_rule(r02_3, model)
    run.try_rule(r02_5, model)
    run.try_rule(r02_6, model)
    run.try_rule(r02_8, model)
    run.try_rule(r02_9, model)
    run.try_rule(r02_10, model)
    run.try_rule(r02_11, model)
    run.try_rule(r02_12, model)
    run.try_rule(r02_14, model)
    run.try_rule(r02_15, model)
    run.try_rule(r02_16, model)
    run.try_rule(r02_18, model)
    from rules import c08 as _c08
    run.rule("R02.17", "no function that is still mentioned is pruned (shared with C08 R08.14): a dangling function name is an undeclared identifier in Go")
    run.try_rule(_c08.r08_14, model)
    from rules import c06
    run.rule("R02.13", "no type switch on a variable that an enclosing type switch rebound at a struct type (shared with C06 R06.11)")
    run.try_rule(c06.r06_11, model)
    # the Go-level rewrites (known-variant selection, dead-code elimination) leave invalid Go behind when a nested block is skipped
    run.try_rule(r02_19, model)
    run.try_rule(r02_20, model)
    run.try_rule(r02_21, model)
    run.try_rule(r02_22, model)
    # a declaration and the variables bound to its calls agree on the converted result type (shared with C08 R08.19)
    from rules import c08 as _c08b
    run.try_rule(_c08b.r08_19, model)
    # what the Go printer writes between quotes must be acceptable Go source text (shared with C11 R11.8)
    from rules import c11 as _c11
    run.try_rule(_c11.r11_8, model)
    # `func main() { main0() }` is emitted unconditionally: the entry-point checks of both pipelines (shared with C14 R14.14)
    from rules import c14 as _c14
    run.try_rule(_c14.r14_14, model)
    from rules import c07 as _c07
    run.try_rule(_c07.r07_18, model)
    # effect position keeps calls only and emits other forms as bare Go expression statements: a loop body is unit (shared with C03 R03.14)
    from rules import c10 as _c10
    run.try_rule(_c10.r10_16, model)
    from rules import c08
    run.try_rule(c08.r08_1, model)
    from rules import c07
    for fn_ in (c19.r19_1, c19.r19_2, c19.r19_3, c19.r19_15, c19.r19_16, c19.r19_4, (lambda r, m: c07.r07_2(r, m, None, "C02")), c08.r08_2, c08.r08_3):
        run.try_rule(fn_, model)
    run.rule("R02.7", "Go type declarations are collected through every type former: the runtime-type collector is a structural traversal of Ty "
                      "that handles every child-carrying former (shared audit with C07 R07.2)")
    cv = T.child_variants(model)
    hit = False
    for t in T.discover(model):
        if t.fn.name == "collect_type":
            hit = True
            for v in sorted(cv):
                ok = v in t.covered or not t.catch
                run.ob("R02.7", f"collect_type|{v}", ok, site(t.fn.file, t.match["sp"]), f"{v} {'handled' if v in t.covered else 'falls to the catch-all'}",
                       witness=f"a tuple type used only inside {v}[…] is referenced in the Go output without a type declaration")
    if not hit:
        raise AnalysisIncomplete("collect_type not found")
    run.assume("the Go AST is only annotated with types, not indexed by them: well-typedness of each emitted statement is not decided")
