"""C04 The compiler never crashes or hangs (structural clauses)."""
import re
from lib import syn as S, tables as TB
from lib.mir import Mir, callee_tail
from lib.panics import Graph, site_kind, base_fn, norm_callee
from lib.progress import Analyzer
from lib.core import AnalysisIncomplete, site
from rules import c20, c03

EXPLANATION = (
    "Whole-pipeline panic freedom is NOT decided (it rests on typer-established invariants through seven IRs). Decided: R04.1 every "
    "loop of the grammar makes progress - an abstract interpreter over the parser's functions (token-set state, end-of-input flag, "
    "consumed flag; function summaries per entry token set) shows that every path through a loop body that falls through or continues "
    "has consumed a token unless the parser is at end of input; the FIRST-set constants are interpreted against the `match p.peek()` "
    "arms they guard, so R04.2 (a token in a FIRST set without an arm = non-advancing path or unreachable!) is part of the same "
    "proof. R04.3 every grammar function starting with assert!(p.at(K)) is only called where a test for K guards the call. R04.4 "
    "I/O and JSON failures in the package/artifact layer are mapped to diagnostics (no unwrap/expect on fs/serde results; resolved "
    "callees) and every Err built there goes through compile_error. R04.5 the lookup layer (typer module, env.rs) contains no explicit "
    "panic site (the project's own rule). R04.6 the occurs check and the typer's type traversals handle every type former (shared "
    "with C03), so no cyclic type can be built. Stack depth and the ranges of diagnostics are not decided.")

PARSER_FILES = ["crates/parser/src/expr.rs", "crates/parser/src/file.rs", "crates/parser/src/pattern.rs", "crates/parser/src/path.rs", "crates/parser/src/stmt.rs"]


def const_sets(run, model):
    out = {}
    for rel in model.src_files():
        if not rel.startswith("crates/parser/src/"):
            continue
        for it, _ in model.all_items(rel):
            if it["k"] == "Const" and "TokenKind" in (it.get("ty") or ""):
                txt = S.norm_ws(run.facts.text(rel, it["expr"]["sp"]))
                syms = []
                for m in re.finditer(r"T!\[('.'|[^\]]+?)\]", txt):
                    s = m.group(1)
                    syms.append(s[1] if len(s) == 3 and s[0] == "'" else s)
                out[it["name"]] = set(syms)
    return out


def r04_1(run, model):
    run.rule("R04.1", "every while/loop of the grammar makes progress: each path through the body that falls through or continues has consumed "
                      "a token, unless the parser is at end of input (abstract interpretation with per-token-set function summaries; FIRST "
                      "sets are checked against the arms they guard)")
    files = [f for f in PARSER_FILES if f in model.src_files()]
    consts = const_sets(run, model)
    run.floor("token-set constants of the parser", len(consts), 3)
    bp = TB.binding_powers(run, model)
    powers = {"prefix_binding_power": set(bp["prefix"]), "infix_binding_power": set(bp["infix"]), "postfix_binding_power": set(bp["postfix"])}
    # other Option-valued token tables (e.g. type_infix_binding_power): arms whose body starts with Some
    for rel in files:
        for f in model.fns(rel):
            if f.body is None or not f.name.endswith("_binding_power") or f.name in powers:
                continue
            toks = set()
            for m in S.find(f.body, "Match"):
                for arm in m["arms"]:
                    if S.norm_ws(run.facts.text(rel, arm["body"]["sp"])).startswith("Some("):
                        for mm in re.finditer(r"T!\[('.'|[^\]]+?)\]", S.norm_ws(run.facts.text(rel, arm["pat"]["sp"]))):
                            t = mm.group(1)
                            toks.add(t[1] if len(t) == 3 and t[0] == "'" else t)
            powers[f.name] = toks
    an = Analyzer(run, model, files, consts, powers)
    n = 0
    for rel in files:
        for f in model.fns(rel):
            if f.body is None or f.name not in an.fns:
                continue
            idx = 0
            for loop in S.find(f.body, "While", "Loop"):
                if loop["k"] == "While" and loop["cond"]["k"] == "Let":
                    continue
                n += 1
                idx += 1
                cond = S.norm_ws(run.facts.text(rel, loop["cond"]["sp"])) if loop["k"] == "While" else "loop"
                ok, detail = an.check_loop(f, loop)
                run.ob("R04.1", f"{f.name}|loop #{idx} ({cond[:50]})", ok, site(rel, loop["sp"]), detail,
                       witness="a malformed input on which one iteration consumes nothing: the parser appends events until memory runs out (the fuel counter only turns peek() into eof, loops guarded by the raw p.eof() keep spinning)")
    run.floor("grammar loops analysed", n, 25)
    return an


def r04_2(run, model, an):
    if an is None:
        raise AnalysisIncomplete("R04.2 needs the analyser built by R04.1")
    run.rule("R04.2", "FIRST-set agreement: under each FIRST-set guard the guarded grammar function must consume a token on every path "
                      "(EXPR_FIRST -> expr, PATTERN_FIRST -> pattern, TYPE_FIRST -> type_expr): a token in the set without an arm would "
                      "be a non-advancing path or an unreachable!()")
    pairs = [("EXPR_FIRST", "expr"), ("PATTERN_FIRST", "pattern"), ("TYPE_FIRST", "type_expr")]
    for cname, fname in pairs:
        toks = an.consts.get(cname)
        if not toks or fname not in an.fns:
            raise AnalysisIncomplete(f"{cname}/{fname} not found")
        for t in sorted(toks):
            summ = an.summary(fname, frozenset([t]))
            stuck = [x for x in summ if not x[1]]
            run.ob("R04.2", f"{cname}|{t} -> {fname}", not stuck, site(an.fns[fname].file, an.fns[fname].node["sp"]),
                   f"{fname}() at `{t}`: outcomes {sorted(summ)}" if stuck else f"{fname}() consumes `{t}` on every path",
                   witness=f"the token `{t}` passes the {cname} test but {fname}() returns without consuming it: the enclosing loop spins")
        # unreachable!() arms behind the set
        f = an.fns[fname]
    sp = model.fn("simple_pattern", "crates/parser/src/pattern.rs")
    m = next(iter(S.find(sp.body, "Match")), None)
    if m is not None:
        # the dispatch may be split over private helpers (a token -> kind table, one function per form): every arm of every match
        # of simple_pattern and the same-file helpers it calls counts, whatever function it sits in
        arm_toks = set()
        for g in model.scope_fns(sp, depth=2):
            for mm in S.find(g.body, "Match"):
                for arm in mm["arms"]:
                    arm_toks |= set(an.tsyms(model.facts.text(g.file, arm["pat"]["sp"])))
        missing = sorted(an.consts["PATTERN_FIRST"] - arm_toks)
        run.ob("R04.2", "simple_pattern|arms cover PATTERN_FIRST", not missing, site(sp.file, m["sp"]), f"PATTERN_FIRST tokens without an arm: {missing or 'none'}",
               witness="the catch-all arm is unreachable!(): a FIRST token without an arm panics")


def r04_29(run, model):
    run.rule("R04.29", "lowering is linear in the size of the source: in ast::lower a lowered expression (a parameter or local of type "
                       "ast::Expr / Vec<ast::Expr> / Option<ast::Expr>, e.g. the argument list a call pushes inwards) is moved into the tree "
                       "once, never cloned - a clone per branch makes the AST exponential in the nesting depth and every later stage walks all "
                       "of it; expected count zero, the values examined are the coverage")
    LOWER = "crates/ast/src/lower.rs"
    ety = re.compile(r"^(&(mut)?)?((Vec|Option|Box)<)*(ast::)?(Expr|Arm|Block|Pat)>*$")
    fns = [g for g in model.fns(LOWER) if g.body is not None]
    exprret = {g.name for g in fns if ety.match((g.node.get("ret") or "").replace(" ", ""))}
    n = 0
    for f in fns:
        names = {p_["pat"].get("name") for p_ in f.params() if not p_["self"] and ety.match((p_["ty"] or "").replace(" ", ""))} - {None}
        for l in S.find(f.body, "Local"):
            if l.get("init") is not None and any(c["k"] in ("Call", "MethodCall") and S.callee_name(c) in exprret for c in S.walk(l["init"])):
                names |= set(S.pat_bindings(l["pat"]))
        n += len(names)
        for c in S.walk(f.body):
            if c["k"] == "MethodCall" and c["method"] in ("clone", "cloned", "to_vec", "to_owned") and c["recv"]["k"] == "Path" and \
                    len(c["recv"]["segs"]) == 1 and c["recv"]["segs"][0] in names:
                run.ob("R04.29", f"{f.name}|the lowered `{c['recv']['segs'][0]}` is used once", False, site(LOWER, c["sp"]),
                       f"`{S.norm_ws(run.facts.text(LOWER, c['sp']))}`: a lowered sub-tree is copied",
                       witness="`(if c { f } else { g })((if c { f } else { g })(..20 levels..))`: 2^20 copies of the innermost argument; a 740-byte "
                               "file exhausts memory")
    run.ob("R04.29", "no lowered expression is cloned in ast::lower", True, site(LOWER, None), f"{n} parameters / locals holding lowered syntax examined")
    run.floor("parameters and locals of ast::lower that hold lowered syntax", n, 25)


def r04_3(run, model):
    run.rule("R04.3", "assert preconditions: every grammar function that starts with assert!(p.at(K)) is called only where a test for K guards the call")
    gas = c20.guarded_asserts(run, model)
    run.floor("grammar functions with a token precondition", len(gas), 25)
    for name, (K, ok, detail, f) in sorted(gas.items()):
        run.ob("R04.3", f"{name}|assert p.at({K})", ok, site(f.file, f.node["sp"]), detail,
               witness=f"{name}() reached while the parser is not at `{K}`: assert! panics on malformed input")


def r04_4(run, model, mir):
    run.rule("R04.4", "the package/artifact layer maps failures to diagnostics: no unwrap/expect on std::fs / serde_json / path results in "
                      "pipeline::{separate,packages} (resolved callees, expected 0 with main.rs as positive control) and every Err constructed "
                      "there is built by compile_error or carries gated diagnostics")
    zone = ("crates/compiler/src/pipeline/separate.rs", "crates/compiler/src/pipeline/packages.rs")
    bad = 0
    ctrl = 0
    for c in mir.calls:
        if site_kind(c) != "unwrap":
            continue
        if c["file"] in zone:
            bad += 1
            fn_ = base_fn(c["caller"])
            run.ob("R04.4", f"{fn_}|unwrap", False, site(c["file"], [c["line"]]), f"{norm_callee(c['callee'])} in the package/artifact layer",
                   witness="an unreadable directory / malformed artifact crashes the compiler instead of producing a diagnostic")
        elif c["file"].startswith("crates/compiler/src/") or c["file"].startswith("crates/ast/src/"):
            ctrl += 1
    run.ob("R04.4", "pipeline::{separate,packages}|no unwrap/expect", bad == 0, None, f"{bad} unwrap/expect sites in the zone; {ctrl} elsewhere in the compiler (control)")
    run.floor("positive control: unwrap/expect sites recognised elsewhere", ctrl, 3)
    # functions of the zone (and closures are followed by name) whose result is a CompilationError built the accepted way
    makers = {"compile_error"}
    for rel in zone + ("crates/compiler/src/pipeline/mod.rs", "crates/compiler/src/pipeline/pipeline.rs"):
        try:
            for g in model.fns(rel):
                rt = g.node.get("ret")
                if rt and re.fullmatch(r"(crate::pipeline::pipeline::)?CompilationError", S.norm_ws(str(rt))):
                    makers.add(g.name)
        except Exception:
            pass

    def err_value_ok(e, depth=0):
        """an expression that denotes a CompilationError carrying a diagnostic"""
        if depth > 4:
            return False
        k = e["k"]
        if k in ("Paren", "Reference"):
            return err_value_ok(e["expr"], depth + 1)
        if k == "Path" and len(e["segs"]) == 1:
            return True  # an error value received from a callee (`err`, `e`)
        if k in ("Call", "MethodCall") and S.callee_name(e) in makers:
            return True
        if k == "Struct" and e["segs"][0] == "CompilationError":
            return any(fl["name"] == "diagnostics" for fl in e["fields"])
        if k == "Match":
            return all(err_value_ok(a["body"], depth + 1) for a in e["arms"])
        if k == "If":
            return e.get("else") is not None and err_value_ok(e["then"], depth + 1) and err_value_ok(e["else"], depth + 1)
        if k == "Block":
            st = e.get("stmts") or []
            return bool(st) and err_value_ok(st[-1].get("expr") or st[-1], depth + 1)
        return False
    n = 0
    for rel in zone:
        for f in model.fns(rel):
            if f.body is None:
                continue
            for c in S.calls(f.body, "Err"):
                if c["k"] != "Call" or not c["args"]:
                    continue
                n += 1
                a = c["args"][0]
                t = S.norm_ws(run.facts.text(rel, a["sp"]))
                ok = err_value_ok(a)
                run.ob("R04.4", f"{f.qual}|Err carries a diagnostic", ok, site(rel, c["sp"]), f"Err({t[:60]})")
    run.floor("Err constructions in the package/artifact layer", n, 15)
    ce = [f for f in model.fns() if f.name == "compile_error" and f.file.startswith("crates/compiler/src/pipeline")]
    for f in ce:
        t = S.norm_ws(run.facts.text(f.file, f.body["sp"]))
        ok = "Severity::Error" in t and "diagnostics.push(" in t
        run.ob("R04.4", f"{f.qual}|builds one Error diagnostic", ok, site(f.file, f.node["sp"]), "compile_error pushes a Severity::Error diagnostic" if ok else t[:100])


def r04_5(run, model, mir):
    run.rule("R04.5", "the lookup layer never panics (AGENTS.md: ambiguity/lookup failures produce recoverable diagnostics): no explicit panic site "
                      "(panic!/unreachable!/todo!/assert*!, Option/Result unwrap/expect) in crates/compiler/src/typer/** and env.rs")
    bad = 0
    ctrl = 0
    for c in mir.calls:
        k = site_kind(c)
        if k not in ("panic", "unwrap"):
            continue
        rel = c["file"]
        if rel.startswith("crates/compiler/src/typer/") or rel == "crates/compiler/src/env.rs":
            bad += 1
            fn_ = base_fn(c["caller"])
            run.ob("R04.5", f"{fn_}|{k}", False, site(rel, [c["line"]]), f"{norm_callee(c['callee'])}{' via ' + c['mac'] if c['mac'] else ''} in the lookup layer",
                   witness="an ill-formed program makes name/type lookup panic instead of reporting a diagnostic")
        elif rel.startswith("crates/compiler/src/"):
            ctrl += 1
    # indexing in the lookup layer (resolved Index::index calls and MIR bounds checks)
    idx = {}
    for c in mir.calls:
        if site_kind(c) == "index" and (c["file"].startswith("crates/compiler/src/typer/") or c["file"] == "crates/compiler/src/env.rs") \
                and not (c["args"] and re.match(r"^&(mut )?str$", c["args"][0])):
            idx.setdefault(base_fn(c["caller"]), []).append((c["file"], c["line"]))
    for a_ in mir.raw["assert"]:
        if a_["kind"] == "BoundsCheck" and (a_["file"].startswith("crates/compiler/src/typer/") or a_["file"] == "crates/compiler/src/env.rs"):
            idx.setdefault(base_fn(a_["caller"]), []).append((a_["file"], a_["line"]))
    allowed = {"env::TypeEnv::build_enum_constructor": (2, "index obtained from enumerate()/position over the same variants vector")}
    for fn_, lst in sorted(idx.items()):
        led = allowed.get(fn_)
        ok = led is not None and len(lst) <= led[0]
        run.ob("R04.5", f"{fn_}|index", ok, site(lst[0][0], [lst[0][1]]), f"{len(lst)} indexing site(s) in the lookup layer" + (f"; ledger: {led[1]}" if led else "; not in the ledger"),
               witness="`args[0]` / `params[i]` on an ill-formed call: the typer panics instead of reporting a diagnostic")
    run.ob("R04.5", "typer + env|no explicit panic site", bad == 0, None, f"{bad} sites in the lookup layer; {ctrl} elsewhere in the compiler crate (control)")
    run.floor("positive control: explicit panic sites recognised elsewhere in the compiler", ctrl, 50)


PARTIAL_LEDGER = {
    "hir::HirTable::": "assert_eq!(id.pkg, self.package): ids are minted by this table for its own package",
    "tast::<impl common::Prim>::zero_for_int_ty": "called with a type for which is_integer_ty held (integer_literal_target / typed literal arms)",
    "tast::<impl common::Prim>::from_float_literal": "called with TFloat32/TFloat64 only (float literal arms)",
    "pipeline::pipeline::typecheck_with_packages_and_results": "package id lookup for a name taken from the same map's key set",
}


def r04_16(run, model, mir, front_extra=()):
    run.rule("R04.16", "the lookup layer does not call partial helpers: a function outside typer/**, env.rs and names.rs that contains an explicit "
                       "panic site may be called from there only if the ledger states why the panicking arm cannot be reached "
                       "(`get_constr_name_unsafe` panics on every type without a constructor and is not in the ledger)")
    g = Graph(mir)

    def front(rel):
        return rel.startswith("crates/compiler/src/typer/") or rel in ("crates/compiler/src/env.rs", "crates/compiler/src/names.rs") or rel in front_extra

    pan = {}
    for c in mir.calls:
        if site_kind(c) == "panic":
            pan.setdefault((c["crate"], base_fn(c["caller"])), c)
    pairs = {}
    for c in mir.calls:
        if not front(c["file"]):
            continue
        t = g.resolve(c["crate"], c["callee"])
        if t in pan and not front(pan[t]["file"]):
            pairs.setdefault((base_fn(c["caller"]), t[1]), c)
    for (caller, callee), c in sorted(pairs.items()):
        led = next((r for k, r in PARTIAL_LEDGER.items() if callee == k or (k.endswith("::") and callee.startswith(k))), None)
        run.ob("R04.16", f"{caller}|calls partial {callee}", led is not None, site(c["file"], [c["line"]]),
               f"ledger: {led}" if led else f"{callee} contains an explicit panic and is not in the ledger",
               witness="`fn f[T](x: T[int32]) -> string { x.foo() }`: the signature is reported, checking goes on and the accessor panics on TParam(T)")
    run.floor("calls from the lookup layer into panicking helpers examined", len(pairs), 15)
    run.floor("functions with an explicit panic site (control)", len(pan), 40)


def r04_17(run, model):
    run.rule("R04.17", "every expression form the type checker can hand over is compiled or diagnosed: no arm of compile_expr's match on the "
                       "typed expression is an unconditional panic (the typer builds method nodes for a method path in any position, not "
                       "only as the function of a call)")
    CM = "crates/compiler/src/compile_match.rs"
    f = model.fn("compile_expr", CM)
    ms = list(S.find(f.body, "Match"))
    if not ms:
        raise AnalysisIncomplete("compile_expr: match on the expression not found")
    n = 0
    for arm in ms[0]["arms"]:
        n += 1
        body = arm["body"]
        stmts = body.get("stmts") if body["k"] == "Block" else None
        only = body
        if stmts is not None and len(stmts) == 1:
            only = stmts[0].get("expr") or stmts[0]
        elif stmts is not None and stmts:
            only = None
        dead = only is not None and only["k"] == "Macro" and re.search(r"\b(panic|unreachable|todo|unimplemented)$", str(only.get("name") or only.get("path") or ""))
        head = S.norm_ws(run.facts.text(CM, arm["pat"]["sp"]))
        head = re.sub(r"\{.*", "", head)
        if dead:
            run.ob("R04.17", f"compile_expr|{head} is compiled or diagnosed", False, site(CM, arm["sp"]), "the arm is an unconditional panic",
                   witness="let g = P::get; (a method path used as a value) passes the type checker and panics in compile_match: "
                           "`EInherentMethod should only appear as the function in ECall`")
    run.ob("R04.17", "compile_expr|no arm is an unconditional panic", True, site(CM, ms[0]["sp"]), f"{n} arms examined")
    run.floor("arms of compile_expr examined", n, 20)


def r04_18(run, model):
    run.rule("R04.18", "a position is reported against the text it was computed in: parse diagnostics carry only a byte range and the CLI "
                       "renders every parser error against the entry file's text, so a parse error of any other file of a package either "
                       "names its file in the error value or has its positions resolved where that file's text is at hand")
    PIPE = "crates/compiler/src/pipeline/pipeline.rs"
    PK = "crates/compiler/src/pipeline/packages.rs"
    e = model.enum("CompilationError", PIPE)
    v = next((x for x in e["variants"] if x["name"] == "Parser"), None)
    if v is None:
        raise AnalysisIncomplete("CompilationError::Parser not found")
    fields = [S.norm_ws(str(fl.get("name"))) + ":" + S.norm_ws(str(fl.get("ty"))) for fl in (v.get("fields") or [])]
    carries_file = any(re.search(r"path|file|source", x, re.I) for x in fields)
    resolvers = {g.name for g in model.fns(PK) if g.body is not None and any(True for _ in S.calls(g.body, "format_parser_diagnostics"))}
    f = model.fn("load_package", PK)
    par = S.Parents(f.body)
    n = 0
    for c in S.calls(f.body, "parse_ast_file"):
        n += 1
        wrapped = False
        for a in par.ancestors(c):
            if a["k"] == "MethodCall" and a["method"] == "map_err" and resolvers and any(True for _ in S.calls(a, *resolvers)):
                wrapped = True
                break
        run.ob("R04.18", f"load_package|parse error #{n} of a non-entry file is located in that file", carries_file or wrapped, site(PK, c["sp"]),
               f"CompilationError::Parser fields: {fields}; resolved through {sorted(resolvers) or 'nothing'} at this call: {wrapped}",
               witness="package Main = main.gom (short) + other.gom with a syntax error at byte 900: `compiler run main.gom` prints the error against "
                       "main.gom's text - wrong file and line, or the panic `invalid offset` when main.gom is shorter than the offset")
    run.floor("parses of non-entry files in load_package", n, 1)
    # every kind of error that parsing a file can produce carries ranges into that file's text: the resolver handles each of them
    produced = set()
    seen_fns, todo = set(), ["parse_ast_file"]
    while todo:
        nm = todo.pop()
        if nm in seen_fns:
            continue
        seen_fns.add(nm)
        for g in model.find_fns(nm, PIPE):
            if g.body is None:
                continue
            for st in S.find(g.body, "Struct"):
                if len(st["segs"]) >= 2 and st["segs"][-2] == "CompilationError":
                    produced.add(st["segs"][-1])
            for c in S.walk(g.body):
                if c["k"] == "Call" and S.callee_name(c) and S.callee_name(c).startswith("parse_ast") and len(seen_fns) < 6:
                    todo.append(S.callee_name(c))
    if not produced:
        raise AnalysisIncomplete("parse_ast_file: no CompilationError constructed in the functions it calls")
    handled = set()
    for g in model.fns(PK):
        if g.body is not None and g.name in resolvers:
            handled |= set(re.findall(r"CompilationError::(\w+)\{", S.norm_ws(run.facts.text(PK, g.body["sp"]))))
    for v_ in sorted(produced):
        run.ob("R04.18", f"load_package|{v_} errors of a non-entry file are located in that file", carries_file or v_ in handled, site(PK, f.node["sp"]),
               f"parsing a file can fail with {sorted(produced)}; the resolver handles {sorted(handled) or 'none'}",
               witness="Lib/lib.gom has an invalid array length at byte 1608: `error (lower): main.gom: Invalid array length` with range 1608..1631 "
                       "against a 41-byte entry file")


def r04_23(run, model):
    run.rule("R04.23", "the constraint solver's fixpoint terminates: the flag that keeps `solve` iterating is raised only where a constraint "
                       "was discharged or replaced by a constraint of another kind - never in a block that puts the constraint it is looking "
                       "at back on the pending list (a deferral that counts as progress is retried for ever)")
    UNI = "crates/compiler/src/typer/unify.rs"
    f = model.fn("solve", UNI, impl="Typer")
    loops = [w for w in S.find(f.body, "While") if w["cond"]["k"] == "Path" and len(w["cond"]["segs"]) == 1]
    if len(loops) != 1:
        raise AnalysisIncomplete(f"solve: {len(loops)} loops driven by a flag found")
    w = loops[0]
    flag = w["cond"]["segs"][0]
    par = S.Parents(w["body"])
    top = next((m for m in S.find(w["body"], "Match")), None)
    if top is None:
        raise AnalysisIncomplete("solve: the match over constraints was not found")

    def variant_of(node):
        arm = next((a for a in reversed(list(par.ancestors(node))) if a["k"] == "Arm" and a in top["arms"]), None)
        if arm is None:
            return None
        m_ = re.match(r"Constraint::(\w+)", S.norm_ws(run.facts.text(UNI, arm["pat"]["sp"])))
        return m_.group(1) if m_ else None

    def requeues(block, variant):
        out = []
        for c in S.walk(block):
            if c["k"] == "MethodCall" and c["method"] in ("push", "push_back", "extend", "insert"):
                for x in S.walk(c):
                    if x["k"] in ("Struct", "Call") and len(x.get("segs") or S.callee_segs(x) or []) >= 2:
                        segs = x.get("segs") or S.callee_segs(x)
                        if segs[-2] == "Constraint" and segs[-1] == variant:
                            out.append(c)
        return out
    n = 0
    for a in S.walk(w["body"]):
        if a["k"] != "Assign" or not S.is_path(a["left"], flag) or not (a["right"]["k"] == "Lit" and str(a["right"].get("value")).lower() == "true"):
            continue
        v = variant_of(a)
        if v is None:
            continue
        n += 1
        blk = next((b for b in par.ancestors(a) if b["k"] == "Block"), None)
        rq = requeues(blk, v) if blk is not None else []
        run.ob("R04.23", f"solve|{v}: progress #{n} is not claimed while the constraint is put back", not rq, site(UNI, a["sp"]),
               f"`{flag} = true` in a block that " + (f"re-queues Constraint::{v} at line {rq[0]['sp'][0]}" if rq else f"does not re-queue Constraint::{v}"),
               witness="let f = |x| Show::show(x); with f never applied: the receiver stays a type variable, the constraint is deferred and counted as "
                       "progress; `check`/`run` spin at 100% CPU for ever")
    run.floor("places where the solver claims progress", n, 3)


def r04_24(run, model):
    run.rule("R04.24", "the statement forms the expression compiler refuses never reach it: compile_cexpr and compile_cexpr_effect panic on "
                       "the control-flow forms (their diverging arms); every match over an ANF expression in the Go back end that hands the "
                       "matched value on to one of them - from a catch-all arm, a binding arm or an arm listing variants - has dealt with "
                       "each refused form in an arm of its own first (the sibling lowerings return / assign / effect must agree on that set)")
    GO = "crates/compiler/src/go/compile.rs"
    enum = model.enum("CExpr")
    allv = {v["name"] for v in enum["variants"]}
    from rules.c01 import is_divergent

    def variants_in(p_):
        return {x for x in re.findall(r"CExpr::(\w+)", S.norm_ws(run.facts.text(GO, p_["sp"]))) if x in allv}
    refused = {}
    for name in ("compile_cexpr", "compile_cexpr_effect"):
        f = model.fn(name, GO)
        best = None
        for m_ in S.find(f.body, "Match"):
            vs = set().union(*[variants_in(a["pat"]) for a in m_["arms"]])
            if len(vs) >= len(allv) - 1:
                best = m_
                break
        if best is None:
            raise AnalysisIncomplete(f"{name}: the match over CExpr was not found")
        refused[name] = set().union(*([variants_in(a["pat"]) for a in best["arms"] if is_divergent(a["body"])] or [set()]))
        if not refused[name]:
            raise AnalysisIncomplete(f"{name}: no diverging arm found (the refused forms changed shape)")
    run.anchor("forms refused", "; ".join(f"{k}: {sorted(v)}" for k, v in refused.items()))
    conv = model.fn("tast_ty_to_go_type", "crates/compiler/src/go/goast.rs")
    void_unreachable = "TVoid" not in run.facts.text("crates/compiler/src/go/goast.rs", conv.body["sp"])
    callers = [h.name for h in model.fns(GO) if h.body is not None and h.name != "compile_aexpr" and any(True for _ in S.calls(h.body, "compile_aexpr"))]
    for h in callers:
        hf = model.fn(h, GO)
        guarded = all(any(a["k"] == "Arm" and "TVoid" in S.norm_ws(run.facts.text(GO, a["pat"]["sp"])) for a in S.Parents(hf.body).ancestors(c))
                      for c in S.calls(hf.body, "compile_aexpr"))
        void_unreachable = void_unreachable and guarded
    n = 0
    for g in model.fns(GO):
        if g.body is None or g.name in refused:
            continue
        for m_ in S.find(g.body, "Match"):
            if not any(variants_in(a["pat"]) for a in m_["arms"]):
                continue
            covered = set()
            for arm in m_["arms"]:
                p_ = arm["pat"]
                listed = variants_in(p_)
                if listed:
                    reaching = listed
                elif p_["k"] in ("PIdent", "PWild"):
                    reaching = allv - covered
                else:
                    reaching = set()
                inner = [x for x in S.find(arm["body"], "Match") if any(variants_in(a["pat"]) for a in x["arms"])]
                for c in S.walk(arm["body"]):
                    if c["k"] != "Call" or S.callee_name(c) not in refused or any(S.span_contains(x["sp"], c["sp"]) for x in inner):
                        continue
                    # the whole matched value is handed on: the arm's binder, or the scrutinee itself
                    whole = set(S.pat_bindings(p_)) if p_["k"] == "PIdent" else set()
                    whole |= S.idents(m_["scrut"])
                    if not any(S.idents(a) & whole for a in c["args"]):
                        continue
                    n += 1
                    bad = sorted(reaching & refused[S.callee_name(c)])
                    head = S.norm_ws(run.facts.text(GO, p_["sp"]))[:40]
                    led = None
                    if bad and g.name == "compile_aexpr" and void_unreachable:
                        led = ("compile_aexpr lowers a body only for a function whose Go result type is TVoid; tast_ty_to_go_type never "
                               "produces TVoid (checked on this tree: its body does not mention it), so no user function is lowered here")
                    run.ob("R04.24", f"{g.name}|arm `{re.sub(r'[0-9]+', 'N', head)}` hands only accepted forms to {S.callee_name(c)}", not bad or led is not None, site(GO, c["sp"]),
                           f"forms that reach this call: {len(reaching)}; refused among them: {bad or 'none'}" + (f"; ledger: {led}" if led else ""),
                           witness="while a { while b { .. }; step() }: the inner loop, a statement followed by another, reaches compile_cexpr: "
                                   "`EWhile should be lowered to goast::Stmt::Loop` - run and link exit with a panic on a well-typed program")
                if arm.get("guard") is None:
                    covered |= listed
    run.floor("arms handing a matched ANF expression to the expression compiler", n, 6)


def r04_26(run, model):
    run.rule("R04.26", "the receiver is not part of the question `can this method be called through dyn`: every trait method takes Self as its "
                       "first parameter, so the predicate on FnScheme that looks for Self in a signature leaves the first parameter out; counting it "
                       "makes every method non-dispatchable, the vtable's signature types are no longer collected and the Go backend panics on "
                       "the first generic instance a vtable mentions")
    ENV = "crates/compiler/src/env.rs"
    preds = [f for f in model.fns(ENV) if f.impl == "FnScheme" and f.body is not None and S.norm_ws(f.node.get("ret") or "") == "bool"]
    n = 0
    for f in preds:
        for m_ in S.find(f.body, "Match"):
            for arm in m_["arms"]:
                pt = S.norm_ws(run.facts.text(ENV, arm["pat"]["sp"]))
                mm = re.search(r"TFunc\{(\w+)", pt)
                if not mm:
                    continue
                pname = mm.group(1)
                for c in S.walk(arm["body"]):
                    if c["k"] != "MethodCall" or c["method"] not in ("any", "all"):
                        continue
                    chain = S.norm_ws(run.facts.text(ENV, c["recv"]["sp"]))
                    if not chain.startswith(pname + "."):
                        continue
                    n += 1
                    ok = re.search(r"\.skip\(1\)|\[1\.\.\]", chain) is not None
                    run.ob("R04.26", f"FnScheme::{f.name}|the scan of the parameters starts after the receiver", ok, site(ENV, c["sp"]),
                           f"parameters scanned: `{chain}`",
                           witness="trait Lookup { fn find(Self, int32) -> Opt[int32]; } used behind dyn: Opt__int32 is never collected for the "
                                   "vtable and the Go emitter panics")
    run.floor("parameter scans in the dyn-dispatch predicate of FnScheme", n, 1)


def r04_25(run, model):
    run.rule("R04.25", "a type is taken apart by the helper that recognises its kind: in compile_match.rs a function that looks its type up "
                       "among the structs does not obtain the type arguments from the decomposer of enum types (and vice versa) - that helper "
                       "answers None for the other kind, the arguments default to none and instantiating a generic definition panics")
    CM = "crates/compiler/src/compile_match.rs"
    helpers = {}
    for g in model.fns(CM):
        if g.body is None or not re.match(r"Option<\((\w+::)*TastIdent,Vec<(\w+::)*Ty>\)>", (g.node.get("ret") or "").replace(" ", "")):
            continue
        kinds = set()
        for m_ in S.find(g.body, "Match"):
            for arm in m_["arms"]:
                pt = S.norm_ws(run.facts.text(CM, arm["pat"]["sp"]))
                mm = re.match(r"Ty::(TEnum|TStruct)\{", pt)
                if mm:
                    kinds.add(mm.group(1))
        if len(kinds) == 1:
            helpers[g.name] = next(iter(kinds))
    if len(helpers) < 2:
        raise AnalysisIncomplete(f"type decomposers in compile_match.rs: {sorted(helpers)}")
    n = 0
    for f in model.fns(CM):
        if f.body is None or f.name in helpers:
            continue
        txt = S.norm_ws(run.facts.text(CM, f.body["sp"]))
        tables = {t for t in ("structs", "enums") if re.search(r"\." + t + r"\(\)", txt)}
        for c in S.walk(f.body):
            if c["k"] != "Call" or S.callee_name(c) not in helpers:
                continue
            n += 1
            kind = helpers[S.callee_name(c)]
            want = "structs" if kind == "TStruct" else "enums"
            other = "enums" if want == "structs" else "structs"
            bad = other in tables and want not in tables
            run.ob("R04.25", f"{f.name}|{S.callee_name(c)} is applied to a type of its own kind", not bad, site(CM, c["sp"]),
                   f"{S.callee_name(c)} recognises {kind}; {f.name} looks its type up in {sorted(tables) or 'no table'}",
                   witness="let Pair { a, b } = p with p: Pair[int32, string]: `Struct Pair expects 2 type arguments, but got 0` - run, check and "
                           "build exit with a panic on a well-typed program")
    run.floor("uses of the type decomposers", n, 2)


def r04_22(run, model):
    run.rule("R04.22", "two looks at the same token agree: the grammar is written `if p.at(K) { f(p) }` with `assert!(p.at(K))` inside f "
                       "(R04.3), so Parser::peek / nth must not change their answer between two calls without an `advance` - a look that "
                       "spends the stuck-parser fuel and answers Eof once it is gone makes the test and the assertion disagree")
    PARSER = "crates/parser/src/parser.rs"
    n = 0
    for name in ("peek", "nth"):
        f = model.fn(name, PARSER, impl="Parser")
        t = S.norm_ws(run.facts.text(PARSER, f.body["sp"]))
        spends = re.search(r"fuel\.set\(", t) is not None
        gates = re.search(r"ifself\.fuel\.get\(\)==0", t) is not None
        n += 1
        run.ob("R04.22", f"Parser::{name}|looking at a token does not change the answer of the next look", not (spends and gates), site(PARSER, f.node["sp"]),
               f"spends fuel: {spends}; answers Eof when the fuel is gone: {gates}",
               witness="`match ---…-1 { .. }` with exactly 254 prefix operators: `if p.at('{')` succeeds with the last unit of fuel, match_arm_list's "
                       "assert!(p.at('{')) sees Eof and panics (253 and 255 give `parser did not consume input`)")
    run.floor("look-ahead primitives examined", n, 2)


def r04_7(run, model, only_files=None):
    from lib import bounds as B
    run.rule("R04.7", "hand-written scanners never index past the end: every `bytes[E]` / `tokens[E]` in the lexer's multi-line string scanner, the "
                      "parser input and the query's byte scanning is dominated by a bounds test on E itself (short-circuit `E < len &&`, "
                      "`E >= len ||`, enclosing while/if, or an earlier `if E >= len { exit }` with no increment in between)")
    n = 0
    for rel in ("crates/lexer/src/lib.rs", "crates/parser/src/input.rs", "crates/parser/src/parser.rs", "crates/compiler/src/query.rs", "crates/wasm-app/src/lib.rs"):
        if rel not in model.src_files() or (only_files is not None and rel not in only_files):
            continue
        allf = model.fns(rel)
        for fn in allf:
            if fn.body is None:
                continue
            # functions explicitly marked unused are dead code
            called = not any(a["name"] == "allow" and re.search(r"unused|dead_code", a["args"]) for a in fn.node.get("attrs", []))
            par = None
            aliases = {}
            for l in S.find(fn.body, "Local"):
                if l["pat"]["k"] == "PIdent" and l.get("init") is not None:
                    t = S.norm_ws(run.facts.text(rel, l["init"]["sp"]))
                    m = re.fullmatch(r"([a-z_.()]+)\.as_bytes\(\)", t)
                    if m:
                        aliases[l["pat"]["name"]] = m.group(1)
            for x in S.walk(fn.body):
                if x["k"] != "Index" or x["index"]["k"] == "Range":
                    continue
                b = S.norm_ws(run.facts.text(rel, x["base"]["sp"]))
                if not re.search(r"bytes|tokens", b):
                    continue
                if not called:
                    continue
                if par is None:
                    par = S.Parents(fn.body)
                n += 1
                g = B.index_guard(lambda nd: S.norm_ws(run.facts.text(rel, nd["sp"])), x, par, aliases=tuple(v for k, v in aliases.items() if k == b))
                it = S.norm_ws(run.facts.text(rel, x["sp"]))
                run.ob("R04.7", f"{fn.qual}|{it}", g is not None, site(rel, x["sp"]), f"{it}: {g or 'no bounds test on this index expression dominates the access'}",
                       witness="a text ending in `\\\\line⏎   \\` (half-typed multi-line string): bytes[idx + 1] is read one past the end and the lexer panics")
    run.floor("guarded index sites in scanners", n, 1 if only_files is None else 0)


def fuel_limited_methods(model):
    """Parser methods whose answer depends on the stuck-parser fuel (peek/nth read it; at, at_any, eat, expect … call those)"""
    PARSER = "crates/parser/src/parser.rs"
    meths = {g.name: g for g in model.fns(PARSER) if g.body is not None and g.impl == "Parser"}
    reads = {n_ for n_, g in meths.items() if n_ not in ("advance", "new") and any(x["k"] == "Field" and x.get("member") == "fuel" for x in S.walk(g.body))}
    changed = True
    while changed:
        changed = False
        for n_, g in meths.items():
            if n_ in reads or n_ in ("advance", "new"):
                continue
            if any(c["k"] == "MethodCall" and c["method"] in reads and S.is_path(c["recv"], "self") for c in S.walk(g.body)):
                reads.add(n_)
                changed = True
    return reads


def r04_10(run, model, an):
    run.rule("R04.10", "look-ahead does not spend the stuck-parser fuel: a loop that inspects tokens without consuming any (its own cursor "
                       "moves, the parser's does not) reads them through a fuel-free accessor; otherwise the number of observations between "
                       "two advances is unbounded, peek() starts answering Eof for tokens that exist, and a guarded `assert!(p.at(K))` fails")
    if an is None:
        raise AnalysisIncomplete("parser analyzer not available")
    reads = fuel_limited_methods(model)
    run.floor("positive control: fuel-limited Parser methods", len(reads), 4)
    n = 0
    files = [f for f in PARSER_FILES if f in model.src_files()]
    for rel in files:
        for f in model.fns(rel):
            if f.body is None or f.name not in an.fns:
                continue
            for loop in S.find(f.body, "While", "Loop"):
                if loop["k"] == "While" and loop["cond"]["k"] == "Let":
                    continue
                if an.may_advance(f, loop["body"]):
                    continue
                n += 1
                spent = sorted({c["method"] for c in S.walk(loop) if c["k"] == "MethodCall" and c["method"] in reads})
                run.ob("R04.10", f"{f.name}|look-ahead loop is fuel-free", not spent, site(rel, loop["sp"]),
                       f"fuel-limited observations inside the look-ahead loop: {spent or 'none'}",
                       witness="`impl a::a::…::a for T {}` with 127 segments: the look-ahead of impl_has_trait drains the fuel, the following parse_path sees Eof and its debug_assert panics (debug build); longer paths are rejected with `parser did not consume input`")
    run.floor("look-ahead loops", n, 1)


def r04_8(run, model):
    run.rule("R04.8", "a link input that lacks a dependency named in some unit's `deps` is an error before the back end runs: link_cores (or a "
                      "function it calls before mono) looks every dependency up and returns Err when it is absent")
    SEP = "crates/compiler/src/pipeline/separate.rs"
    link = model.fn("link_cores", SEP)
    stages = [c for c in S.calls(link.body, "mono")]
    limit = (stages[0]["sp"][0], stages[0]["sp"][1]) if stages else (10 ** 9, 0)
    cands = [link] + [g for g in model.fns(SEP) if g.body is not None and g is not link and any((c["sp"][0], c["sp"][1]) < limit for c in S.calls(link.body, g.name))]
    found = []

    def filled_from_deps(g):
        """locals populated inside a loop over some unit's deps (a collection of all dependency names)"""
        out = set()
        for lp in S.find(g.body, "For"):
            if ".deps" not in S.norm_ws(run.facts.text(SEP, lp["iter"]["sp"])):
                continue
            for c in S.walk(lp["body"]):
                if c["k"] == "MethodCall":
                    r = c["recv"]
                    while r["k"] == "MethodCall":
                        r = r["recv"]
                    if r["k"] == "Path" and len(r["segs"]) == 1:
                        out.add(r["segs"][0])
        return out

    for g in cands:
        for loop in S.find(g.body, "For"):
            it = S.norm_ws(run.facts.text(SEP, loop["iter"]["sp"]))
            if ".deps" not in it and not (S.idents(loop["iter"]) & filled_from_deps(g)):
                continue
            if g is link and (loop["sp"][0], loop["sp"][1]) > limit:
                continue
            # lookups of the dependency and what their failure branch does
            for l in S.find(loop["body"], "Local"):
                if l.get("else") is not None and l.get("init") is not None and any(c["k"] == "MethodCall" and c["method"] == "get" for c in S.walk(l["init"])):
                    rets = any(r.get("expr") is not None and S.callee_name(r["expr"]) == "Err" for r in S.find(l["else"], "Return"))
                    found.append((g.name, "let-else", rets))
            for iff in S.find(loop["body"], "If"):
                ct = S.norm_ws(run.facts.text(SEP, iff["cond"]["sp"]))
                if re.fullmatch(r"!\w+\.contains_key\(&?\w+\)", ct):
                    rets = any(r.get("expr") is not None and S.callee_name(r["expr"]) == "Err" for r in S.find(iff["then"], "Return"))
                    found.append((g.name, "contains_key", rets))
            for c in S.walk(loop["body"]):
                if c["k"] == "Try" and any(x["k"] == "MethodCall" and x["method"] in ("ok_or_else", "ok_or") for x in S.walk(c["expr"])) and \
                        any(x["k"] == "MethodCall" and x["method"] == "get" for x in S.walk(c["expr"])):
                    found.append((g.name, "ok_or_else?", True))
    ok = any(r for _, _, r in found)
    run.ob("R04.8", "link_cores|missing dependency is rejected", ok, site(SEP, link.node["sp"]),
           f"dependency lookups before the back end: {found or 'none'}",
           witness="goml link Main.core Geo.core without Shape.core: the Go back end panics ('Cannot resolve variant name') or emits calls to undefined functions")


def r04_27(run, model):
    run.rule("R04.27", "a position is resolved against the text it was computed in (continued): the CLI turns the range of a match-compiler "
                       "diagnostic into line and column with the entry file's text alone (`format_compile_diagnostics(diagnostics, src)`; "
                       "LineIndex::line_col panics past the end of the text), and a typed tree does not say which file a node came from - so "
                       "while the error value carries no file, the typed tree handed to the match compiler carries no syntax pointer on "
                       "the nodes whose diagnostics take their range from it")
    PIPE = "crates/compiler/src/pipeline/pipeline.rs"
    CM = "crates/compiler/src/compile_match.rs"
    TB = "crates/compiler/src/typer/tast_builder.rs"
    e = model.enum("CompilationError", PIPE)
    v = next((x for x in e["variants"] if x["name"] == "Compile"), None)
    if v is None:
        raise AnalysisIncomplete("CompilationError::Compile not found")
    fields = [S.norm_ws(str(fl.get("name"))) + ":" + S.norm_ws(str(fl.get("ty"))) for fl in (v.get("fields") or [])]
    carries_file = any(re.search(r"path|file|source", x, re.I) for x in fields)
    fmt = model.find_fns("format_compile_diagnostics")
    one_text = bool(fmt) and all(sum(1 for p in g.params() if re.search(r"\bstr\b|String", p["ty"] or "")) == 1 and
                                 any(c["k"] == "MethodCall" and c["method"] == "line_col" for c in S.walk(g.body)) for g in fmt if g.body is not None)
    # which typed nodes give their pointer to a diagnostic of the match compiler: arms of compile_match.rs that bind `astptr` and turn it into a range
    ranged = set()
    for g in model.fns(CM):
        if g.body is None:
            continue
        for m in S.find(g.body, "Match"):
            for arm in m["arms"]:
                for alt in S.pat_alts(arm["pat"]):
                    h = S.pat_head(S.strip_refs(alt))
                    if h[0] == "variant" and "astptr" in S.pat_bindings(alt) and \
                            any(c["k"] == "MethodCall" and c["method"] == "text_range" for c in S.walk(arm["body"])) and "astptr" in S.idents(arm["body"]):
                        ranged.add(h[1][-1])
    with_range = sum(1 for g in model.fns(CM) if g.body is not None for c in S.walk(g.body) if c["k"] == "MethodCall" and c["method"] == "with_range")
    premise = one_text and not carries_file and with_range > 0 and bool(ranged)
    n = 0
    for g in model.fns(TB):
        if g.body is None:
            continue
        for st in S.find(g.body, "Struct"):
            if st["segs"][-1] not in ranged or "Expr" not in st["segs"]:
                continue
            for fl in st["fields"]:
                if fl["name"] != "astptr":
                    continue
                n += 1
                ex = fl.get("expr")
                none = ex is not None and ex["k"] == "Path" and ex["segs"] == ["None"]
                run.ob("R04.27", f"{g.name}|{st['segs'][-1]} carries no syntax pointer into the match compiler", none or not premise, site(TB, fl["sp"]),
                       f"astptr: {S.norm_ws(run.facts.text(TB, ex['sp']))[:50] if ex is not None else 'shorthand'}; the CLI resolves compile diagnostics against one text: "
                       f"{one_text}; CompilationError::Compile fields: {fields}; compile_match takes ranges from the pointers of {sorted(ranged)}",
                       witness="package Main = main.gom (short) + other.gom with `match n { 1 => .. }` lacking a wildcard at byte 900: `compiler run main.gom` "
                               "panics with `invalid offset`, or reports a line of main.gom where no match exists")
    run.ob("R04.27", "match compiler|typed nodes that give their pointer to a diagnostic", True, site(CM, None),
           f"nodes: {sorted(ranged)}; with_range calls: {with_range}; constructions examined in tast_builder: {n}")
    if premise:
        run.floor("constructions of range-giving nodes in tast_builder", n, 1)


def r04_30(run, model):
    run.rule("R04.30", "an error is never emptied on its way out: a formatter that keeps the diagnostics of one stage only (a `.filter(..)` on "
                       "`stage() == &Stage::X` - discovered, today parser::format_parser_diagnostics) is handed the diagnostics of the "
                       "CompilationError variant of that stage and of no other: the bindings that reach its argument are resolved by scope "
                       "(if-let then-block, let-else remainder, match arm, tuple-let over a match) to the variants they destructure")
    filt = {}
    for f in model.fns():
        if f.body is None or f.test or "/tests/" in f.file:
            continue
        for c in S.find(f.body, "MethodCall"):
            if c["method"] == "filter" and c["args"]:
                m = re.search(r"stage\(\)==&?(?:[a-z_]+::)*Stage::([A-Z][A-Za-z]*)", S.norm_ws(run.facts.text(f.file, c["args"][0]["sp"])).replace(" ", ""))
                if m:
                    filt[f.name] = m.group(1)
    if not filt:
        raise AnalysisIncomplete("no stage-filtering diagnostics formatter found")
    n = 0
    for f in model.fns():
        if f.body is None or f.test or "/tests/" in f.file or f.name in filt or not f.file.startswith("crates/compiler/"):
            continue
        calls = [c for c in S.walk(f.body) if c["k"] in ("Call", "MethodCall") and S.callee_name(c) in filt and c["args"]]
        if not calls:
            continue
        par = S.Parents(f.body)

        def variants_of(pat):
            return set(re.findall(r"CompilationError::([A-Z][A-Za-z]*)", S.norm_ws(run.facts.text(f.file, pat["sp"]))))

        for c in calls:
            a = c["args"][0]
            while a["k"] in ("Ref", "Paren", "Unary"):
                a = a["expr"]
            if a["k"] != "Path" or len(a["segs"]) != 1:
                continue
            name = a["segs"][0]
            want = filt[S.callee_name(c)]
            got = None
            # innermost binder of `name` whose scope contains the call
            for anc in par.ancestors(c):
                if anc["k"] == "Arm" and name in S.pat_bindings(anc["pat"]) and S.span_contains(anc["body"]["sp"], c["sp"]):
                    got = variants_of(anc["pat"])
                elif anc["k"] == "If" and anc["cond"]["k"] == "Let" and name in S.pat_bindings(anc["cond"]["pat"]) and S.span_contains(anc["then"]["sp"], c["sp"]):
                    got = variants_of(anc["cond"]["pat"])
                elif anc["k"] == "Block":
                    for st in anc["stmts"]:
                        if st["k"] == "Local" and name in S.pat_bindings(st["pat"]) and (st["sp"][2], st["sp"][3]) <= (c["sp"][0], c["sp"][1]):
                            v = variants_of(st["pat"])
                            if not v and st.get("init") is not None:
                                for mm in S.find(st["init"], "Match"):
                                    for arm in mm["arms"]:
                                        if not S.is_divergent_expr(arm["body"]) if hasattr(S, "is_divergent_expr") else True:
                                            v |= variants_of(arm["pat"])
                            got = v
                if got is not None:
                    break
            n += 1
            ok = got is not None and (not got or got == {want})
            run.ob("R04.30", f"{f.name}|{S.callee_name(c)} receives the diagnostics of CompilationError::{want} only", ok, site(f.file, c["sp"]),
                   f"`{name}` is bound from {sorted(got) if got else 'no CompilationError pattern'}" if got is not None else f"binding of `{name}` not found",
                   witness="a derive error in a non-entry file (`#[derive(ToString)]` on a generic struct in Shapes/shapes.gom): the lowering diagnostics "
                           "are routed through the parser formatter, which keeps Stage::Parser only - `run` exits 1 and prints nothing")
    run.floor("calls of a stage-filtering formatter in the compiler crate", n, 2)


def run(run, model):
    # the occurs check answers for every component of a type (a cyclic type makes the next substitution recurse for ever; shared with C03 R03.27)
    from rules import c03 as _c03q
    run.try_rule(_c03q.r03_27, model, "R04.31")
    mir = Mir(run.facts)
    an = run.try_rule(r04_1, model)
    run.try_rule(r04_2, model, an)
    run.try_rule(r04_3, model)
    run.try_rule(r04_4, model, mir)
    run.try_rule(r04_5, model, mir)
    run.try_rule(r04_16, model, mir)
    run.try_rule(r04_17, model)
    run.try_rule(r04_30, model)
    from rules import c17 as _c17
    run.rule("R04.20", "the by-name lowering of builtins cannot meet a user function of that name (shared with C16 R16.8): define_function "
                       "rejects a name that is already in the function table; otherwise `fn vec_get(x: int32)` reaches the back end's "
                       "`args_iter.next().unwrap()`")
    run.try_rule(lambda r, m: _c17.unique_definition(r, m, "R04.20", "define_function", ".funcs", "function table",
                 "fn vec_get(x: int32) -> int32 { x + 1 } plus a call: the typer accepts it, go::compile panics (unwrap on None)"), model)
    run.try_rule(r04_18, model)
    run.try_rule(r04_27, model)
    run.try_rule(r04_22, model)
    run.try_rule(r04_23, model)
    run.try_rule(r04_24, model)
    run.try_rule(r04_25, model)
    # an unbalanced event stream makes the tree builder panic on the input that triggers it (shared with C12 R12.11)
    from rules import c12 as _c12
    run.try_rule(_c12.r12_11, model)
    run.try_rule(r04_29, model)
    # every position a diagnostic shows lies inside the text it refers to (shared with C12 R12.13)
    try:
        from lib.mir import Mir as _Mir
        run.try_rule(_c12.r12_13, model, _Mir(run.facts))
    except AnalysisIncomplete as e_:
        run.skipped.append({"rule_fn": "r12_13", "reason": str(e_)})
    run.rule("R04.28", "an end-of-input question costs no stuck-parser fuel: Parser::eof reads the token stream, not the fuel-limited peek() - "
                       "the Pratt loops ask eof() once per open frame while a right-nested chain unwinds, so a fuel-spending eof() halves the "
                       "nesting the budget covers and the pretended end of input then reaches an `assert!(p.at(..))` (shared with C12 R12.2)")
    run.try_rule(lambda r, m: _c12.eof_fuel(r, m, "R04.28"), model)
    # an ill-typed pattern that passes the typer makes the match compiler panic (shared with C03 R03.5)
    from rules import c03 as _c03
    run.try_rule(_c03.r03_5, model)
    run.try_rule(r04_7, model)
    run.try_rule(r04_8, model)
    run.try_rule(r04_10, model, an)
    from rules import c08
    run.rule("R04.12", "type-checking work is not doubled per nesting level (shared with C03 R03.11): exponential time and memory on nested calls ends in an abort")
    run.try_rule(c03.r03_11, model)
    from rules import c15
    run.rule("R04.13", "an interface/core file offered as input is validated before the back end sees it (shared with C15 R15.3): an altered "
                       "artifact that passes validation panics in the Go back end")
    try:
        run.try_rule(c15.r15_3, model, mir, {"interface_hash==compute_hash()"}, False)
    except Exception as e:  # pragma: no cover
        raise
    from rules import c12, c07
    run.rule("R04.14", "parser diagnostics carry ranges of existing tokens (shared with C12 R12.5): a range computed past the last token lies outside the text")
    run.try_rule(c12.r12_5, model, mir)
    run.rule("R04.15", "mono never queues an instance under a name that is not in the function table (shared with C07 R07.7)")
    run.try_rule(c07.r07_7, model)
    run.rule("R04.11", "`go f` on a plain function value does not panic in the back end (shared with C08 R08.7)")
    run.try_rule(c08.r08_7, model)
    from rules import c07
    run.rule("R04.9", "specialisation neither panics on a supported type former nor recurses without bound: shared with C07 R07.1 / R07.5")
    run.try_rule(c07.r07_1, model, False)
    run.try_rule(c07.r07_5, model)
    run.rule("R04.19", "specialisation terminates (shared with C07 R07.12): polymorphic recursion must not make the compiler loop")
    run.try_rule(c07.r07_12, model)
    run.rule("R04.21", "a generic instance mentioned only by a type definition does not reach the back end unspecialised (shared with C07 R07.15): it panics there")
    run.try_rule(c07.r07_15, model)
    run.rule("R04.6", "no cyclic type can be built: shared with C03 R03.2 (occurs before binding; occurs handles every type former)")
    run.try_rule(c03.r03_2, model)
    run.try_rule(c07.r07_2, model, None, "C04")
    run.try_rule(r04_26, model)
    run.assume("Parser::expect consumes an unexpected token unless it is in the recovery set; the analysis treats a failed expect as possibly non-advancing")
    run.assume("recursive grammar calls are summarised pessimistically while in progress; loops nested in a summarised function are treated as zero-or-more iterations")
