"""C07 Generic code behaves identically at every instantiation and is fully specialised."""
import re
from lib import syn as S, tytrav as T
from lib.core import AnalysisIncomplete, site

EXPLANATION = (
    "Static decision of the type-level machinery of specialisation. R07.1: the instantiation unifier (mono::unify) has a diagonal arm "
    "for every type former a monomorphic type can contain (all Ty variants except inference variables and the template-side "
    "parameter). R07.2: every structural traversal of tast::Ty (self-recursive function that descends into at least two child-carrying "
    "formers) handles EVERY child-carrying former explicitly and uses every child of it - a former swallowed by a catch-all arm is a "
    "type the traversal silently does not rewrite/inspect; and the anchor traversals that decide genericity/substitution "
    "(has_tparam, subst_ty, substitute_ty_params, collapse_type_apps) are found as structural traversals. R07.3: instances are "
    "deduplicated by a sorted substitution key (ensure_instance consults the table before naming, inserts before queueing); "
    "R07.4: a call site's substitution is derived from the argument types AND the result type. Termination of the work-list "
    "and behavioural equality of instances are not decided.")

MONO = "crates/compiler/src/mono.rs"

# partial structural traversals whose omission of a former is justified
LEDGER = {
    ("go_type_name_for", "TApp", "args"): "naming helper: after monomorphisation no generic application with arguments is left "
                                          "(collapse_type_apps, checked by this rule), so the Go type name is that of the head",
}

ANCHOR_TRAVERSALS = [("mono.rs", "has_tparam"), ("mono.rs", "subst_ty"), ("mono.rs", "collapse_type_apps"),
                     ("compile_match.rs", "has_tparam"), ("compile_match.rs", "substitute_ty_params"),
                     ("go/compile.rs", "substitute_ty_params"), ("typer/unify.rs", "substitute_ty_params")]


def structural(model):
    """[(TyTrav, set of child variants whose arm recurses)]"""
    cv = T.child_variants(model)
    out = []
    for t in T.discover(model):
        rec_vars = set()
        for v, lst in t.covered.items():
            if v not in cv:
                continue
            for arm, alt in lst:
                if any(True for _ in S.calls(arm["body"], t.fn.name)):
                    rec_vars.add(v)
        out.append((t, rec_vars))
    return cv, out


def r07_1(run, model, components=True):
    run.rule("R07.1", "mono::unify (template vs concrete type) has a diagonal arm for every type former a monomorphic type can contain: "
                      "all Ty variants except TVar (inference only) and TParam (template side, handled first)")
    cv, trs = structural(model)
    u = [t for t, _ in trs if t.fn.name == "unify" and t.fn.file.endswith("mono.rs")]
    if not u:
        raise AnalysisIncomplete("mono::unify not found as a pair traversal over Ty")
    t = u[0]
    if t.kind != "pair":
        run.ob("R07.1", "mono::unify|pair match", False, site(t.fn.file, t.fn.node["sp"]), "unify no longer matches on (template, actual)")
        return
    for v in T.all_variants(model):
        if v in ("TVar", "TParam"):
            continue
        ok = v in t.covered
        run.ob("R07.1", f"mono::unify|diagonal {v}", ok, site(t.fn.file, t.match["sp"]),
               f"({v}, {v}) {'has' if ok else 'has NO'} arm" + ("" if ok else "; the pair falls to the catch-all `Err(cannot unify …)`, which mono_expr turns into a panic"),
               witness={"TVec": "fn first[T](v: Vec[T]) -> T called at Vec[int32] panics in mono", "TDyn": "a generic function called with a dyn Trait argument panics in mono"}.get(v, f"a generic call whose argument type contains {v} panics"))
        if ok and v in cv:
            for arm, alt in t.covered[v]:
                rec = any(True for _ in S.calls(arm["body"], "unify"))
                run.ob("R07.1", f"mono::unify|{v} recurses into children", rec, site(t.fn.file, arm["sp"]), f"arm for {v} {'calls' if rec else 'does not call'} unify on its components",
                       witness=f"T inside {v} is never bound: the instance keeps a type parameter")
                if not components:
                    continue  # (host property only needs the diagonal: a missing arm is a panic, an un-unified component is not)
                # every type-carrying binding of the arm's pattern is an operand of unify (directly, or as the iterator of a loop / zip
                # whose elements are): a component that is only measured (`.len()`) is never unified
                binds = set()
                sub_alts = S.strip_refs(alt)["elems"] if S.strip_refs(alt)["k"] == "PTuple" else [alt]
                for sa in sub_alts:
                    b_, _rest = _bind(sa)
                    for k_ in cv[v]:
                        x_ = b_.get(k_)
                        if isinstance(x_, str):
                            binds.add(x_)
                        elif isinstance(x_, tuple):
                            binds |= set(x_)
                fed = set()
                for c in S.calls(arm["body"], "unify"):
                    for a in c["args"]:
                        fed |= S.idents(a)
                for lp in S.find(arm["body"], "For"):
                    if any(True for _ in S.calls(lp["body"], "unify")):
                        fed |= S.idents(lp["iter"])
                for c in S.walk(arm["body"]):
                    if c["k"] == "MethodCall" and c["method"] in ("try_for_each", "for_each", "all", "map", "try_fold") and any(True for _ in S.calls(c, "unify")):
                        fed |= S.idents(c["recv"])
                unfed = sorted(b for b in binds if b not in fed and b not in ("_",))
                run.ob("R07.1", f"mono::unify|{v}: every component is unified", not unfed, site(t.fn.file, arm["sp"]),
                       f"components bound but never handed to unify: {unfed or 'none'}",
                       witness="compose[A,B,C](f: (A) -> B, g: (B) -> C): A occurs only in a callback's parameter position, is never bound, and the instances for A=int32 and A=string collapse into one with a residual A")
    ptxt = S.norm_ws(run.facts.text(t.fn.file, t.match["arms"][0]["pat"]["sp"]))
    run.ob("R07.1", "mono::unify|template parameter binds first", "TParam" in ptxt, site(t.fn.file, t.match["arms"][0]["sp"]), f"first arm: {ptxt[:60]}")


# which traversals matter to which property (a clause is evaluated under a property only where its violation breaks that property):
#   typer::unify::occurs  - infinite types: the typer diverges, nothing is emitted           -> C03, C04 only
#   lift.rs predicates    - closure conversion, not generics                                   -> C08, C02, C03, C01 (not C07)
#   go/** encoders        - Go text, not an IR                                                 -> not C03
SCOPES = {
    "C07": lambda t: t.fn.name != "occurs" and not t.fn.file.endswith("/lift.rs"),
    "C01": lambda t: t.fn.name != "occurs",
    "C02": lambda t: t.fn.name != "occurs" and "/typer/" not in t.fn.file,
    "C03": lambda t: "/go/" not in t.fn.file,
    "C04": lambda t: t.fn.name == "occurs",
    # what a query answers with: the solver's substitution and the table of recorded types hover reads
    "C20": lambda t: t.fn.file.endswith(("typer/unify.rs", "typer/results.rs")),
    # what is computed again when an artifact is written or read back: only the separate pipeline runs it
    "C14": lambda t: t.fn.file.endswith(("/core.rs", "/artifact.rs", "/hir.rs")) or "/pipeline/" in t.fn.file,
    # what instantiates `Self` in a trait method's signature, and what resolves a receiver's type
    "C17": lambda t: "/typer/" in t.fn.file,
}


def r07_2(run, model, only_file=None, scope=None):
    """only_file: evaluate the audit for the traversals of one file only (clause shared into another property);
    scope: property id selecting the traversals whose defects break that property (SCOPES)"""
    run.rule("R07.2", "every structural traversal of Ty handles every child-carrying type former (TTuple, TApp, TArray, TVec, TRef, TFunc - "
                      "computed from the enum) in an explicit arm that uses every child; none is swallowed by a catch-all arm")
    cv, trs = structural(model)
    run.anchor("child-carrying Ty formers (computed)", sorted(cv))
    n = 0
    names = set()
    trav_names = {t.fn.name for t, rv in trs if len([v for v in rv if v != "TApp"]) >= 2}
    # helpers that hand their argument on to a structural traversal (one level, e.g. ref_struct_name -> encode_ty)
    for g in model.fns():
        if g.body is not None and g.file.startswith("crates/compiler/src") and g.name not in trav_names and ((S.idents(g.body) | {S.callee_name(c) for c in S.calls(g.body)}) & trav_names) and \
                any((not p_["self"]) and "Ty" in (p_["ty"] or "") for p_ in g.params()):
            trav_names = trav_names | {g.name}
    for t, rec_vars in trs:
        non_app = [v for v in rec_vars if v != "TApp"]
        if len(non_app) < 2:
            continue  # head inspector (peels TApp/looks at the head constructor), not a structural traversal
        if t.fn.name == "unify" and t.kind == "pair":
            continue  # R07.1 / C03
        if only_file is not None and t.fn.file != only_file:
            continue
        if scope is not None and not SCOPES[scope](t):
            continue
        # dead code (no caller other than itself) decides nothing
        callers = 0
        for g in model.fns():
            if g is t.fn or g.body is None or not g.file.startswith("crates/compiler/src"):
                continue
            if any(True for _ in S.calls(g.body, t.fn.name)):
                callers += 1
                break
        if not callers:
            continue
        n += 1
        names.add((t.fn.file.split("src/")[1], t.fn.name))
        fq = t.fn.qual
        for v, kids in sorted(cv.items()):
            if v not in t.covered:
                led = LEDGER.get((t.fn.name, v))
                swallowed = bool(t.catch)
                cb = S.norm_ws(run.facts.text(t.fn.file, t.catch[0]["body"]["sp"]))[:40] if t.catch else ""
                run.ob("R07.2", f"{fq}|{v}", (not swallowed) or led is not None, site(t.fn.file, t.match["sp"]),
                       f"{v} has no arm; it falls to the catch-all `{cb}`" + (f"; ledger: {led}" if led else ""),
                       witness=f"a type containing {v}[…] is not rewritten/inspected below the {v}: e.g. Vec[Option[int32]] keeps a generic application, a type parameter or a closure type")
                continue
            for arm, alt in t.covered[v]:
                b, rest = _bind(alt)
                body_ids = S.idents(arm["body"])
                # the children are handed to this traversal again (or to another structural traversal), not to a shallow test
                const_arm = arm["body"]["k"] in ("Lit",) or (arm["body"]["k"] == "Path" and len(arm["body"]["segs"]) == 1 and arm["body"]["segs"][0] in ("true", "false"))
                deep = sorted((S.idents(arm["body"]) | {S.callee_name(c) for c in S.calls(arm["body"])}) & trav_names)
                led = LEDGER.get((t.fn.name, v, "shallow"))
                run.ob("R07.2", f"{fq}|{v} descends", bool(deep) or const_arm or led is not None, site(t.fn.file, arm["sp"]),
                       f"the {v} arm {'recurses through ' + ', '.join(sorted(set(deep))) if deep else ('is decided by a constant' if const_arm else 'inspects its children without recursing')}" + (f"; ledger: {led}" if led and not deep else ""),
                       witness=f"a {v} nested inside a {v} (or another former) is not inspected below the first level: e.g. a closure inside ((f, g), n)")
                for k in kids:
                    used = isinstance(b.get(k), str) and b[k] in body_ids
                    if not used and isinstance(b.get(k), tuple):
                        used = any(x in body_ids for x in b[k])
                    # returning a constant for the whole former (e.g. `=> true`) decides without children
                    const = arm["body"]["k"] in ("Lit",) or (arm["body"]["k"] == "Path" and len(arm["body"]["segs"]) == 1 and arm["body"]["segs"][0] in ("true", "false"))
                    led = LEDGER.get((t.fn.name, v, k))
                    run.ob("R07.2", f"{fq}|{v}.{k}", used or const or led is not None, site(t.fn.file, arm["sp"]),
                           f"{v}.{k} {'used' if used else ('decided by a constant' if const else 'NOT used')} in the arm" + (f"; ledger: {led}" if led and not used else ""),
                           witness=f"the `{k}` component of a {v} type is skipped by {t.fn.name}")
    if only_file is not None:
        run.floor(f"structural Ty traversals in {only_file}", n, 1)
        return
    if scope is not None and scope != "C07":
        run.floor(f"structural Ty traversals in the scope of {scope}", n, {"C04": 1, "C20": 3, "C17": 12, "C14": 0}.get(scope, 8))
        return
    run.floor("structural Ty traversals", n, 18)
    for rel, name in ANCHOR_TRAVERSALS:
        ok = (rel, name) in names
        run.ob("R07.2", f"{rel}::{name}|is a structural traversal", ok, None,
               f"{name} {'descends' if ok else 'NO LONGER descends'} into at least two child-carrying formers with explicit recursive arms",
               witness="fn swap_refs[T](a: Ref[T], b: Ref[T]) is treated as monomorphic: one body shared by all instances")


def _bind(alt):
    from lib import passes as P
    return P.arm_field_bindings(alt)


def r07_3(run, model):
    run.rule("R07.3", "one instance per key: ensure_instance looks the (function, substitution-key) up before naming a new instance and "
                      "records it before queueing; the key is built from the sorted substitution; mono() drops generic definitions")
    f = model.fn("ensure_instance", MONO, impl="Ctx")
    txt = S.norm_ws(run.facts.text(MONO, f.body["sp"]))
    get_i = txt.find("instances.get(")
    ins_i = txt.find("instances.insert(")
    q_i = max(txt.find("work.push_back("), txt.find("work.push("))
    ok = 0 <= get_i < ins_i and ins_i < q_i and "return" in txt[get_i:ins_i]
    run.ob("R07.3", "ensure_instance|lookup, then insert, then queue", ok, site(MONO, f.node["sp"]),
           f"positions: get@{get_i} insert@{ins_i} queue@{q_i}", witness="the same instance is generated twice under two names / or two instances share a name")
    g = model.fn("ensure_instance", MONO, impl="TypeMono")
    t2 = S.norm_ws(run.facts.text(MONO, g.body["sp"]))
    ok2 = 0 <= t2.find("self.map.get(&key)") < t2.find("self.map.insert(key") and "return" in t2[:t2.find("self.map.insert(key")]
    run.ob("R07.3", "TypeMono::ensure_instance|lookup before insert", ok2, site(MONO, g.node["sp"]), "type instances are looked up by (name, args) before a new definition is created")
    sn = model.find_fns("spec_name_for", MONO)
    if sn:
        printers = sorted({S.callee_name(c) for c in S.calls(sn[0].body) if re.search(r"(^|_)ty(_|$)|encode|compact|type_name|to_pretty", S.callee_name(c) or "")} |
                          {i for i in S.idents(sn[0].body) if i in ("encode_ty", "go_type_name_for", "go_type_name", "ty_compact")})
        ok = bool(printers) and set(printers) <= {"ty_compact"}
        run.ob("R07.3", "spec_name_for|type arguments rendered by the injective printer", ok, site(MONO, sn[0].node["sp"]),
               f"type printers used for instance names: {printers or 'none found'} (ty_compact keeps brackets and arities; encode_ty / go_type_name_for drop tuple arity - C19 R19.4)",
               witness="first_of at ((int32,int32),int32,int32) and at ((int32,int32,int32),int32): two instances generated under one name")
    for name, impl in (("new", "SubstKey"), ("spec_name_for", None)):
        fs = model.find_fns(name, MONO, impl=impl)
        if not fs:
            raise AnalysisIncomplete(f"{name} not found in mono.rs")
        t = S.norm_ws(run.facts.text(MONO, fs[0].body["sp"]))
        ok = re.search(r"\.sort(_by|_by_key|_unstable|_unstable_by|_unstable_by_key)?\(", t) is not None or "BTreeMap" in t
        run.ob("R07.3", f"{fs[0].qual}|sorted substitution", ok, site(MONO, fs[0].node["sp"]), "the substitution is sorted before it becomes a key/name" if ok else "no sort of the substitution",
               witness="{T:int32,U:bool} and {U:bool,T:int32} give two instances/names")


def _arm_lets(f, node):
    """lets of the top-level match arm of f that contains node (a `let` of another arm is not in scope)"""
    ms = [m for m in S.find(f.body, "Match")]
    scope = f.body
    if ms:
        for arm in ms[0]["arms"]:
            if S.span_contains(arm["sp"], node["sp"]):
                scope = arm["body"]
                break
    lets = {}
    for l in S.find(scope, "Local"):
        if l["pat"]["k"] == "PIdent" and l.get("init") is not None:
            lets[l["pat"]["name"]] = l["init"]
    return lets


class _ScopedLets(dict):
    """name -> init of the nearest `let` that precedes `node` in a block enclosing it"""

    def __init__(self, f, node):
        super().__init__()
        best = {}
        for blk in S.find(f.body, "Block"):
            if not S.span_contains(blk["sp"], node["sp"]):
                continue
            for st in blk["stmts"]:
                if st["k"] == "Local" and st["pat"]["k"] == "PIdent" and st.get("init") is not None and \
                        (st["sp"][2], st["sp"][3]) <= (node["sp"][0], node["sp"][1]):
                    nm = st["pat"]["name"]
                    key = (st["sp"][0], st["sp"][1])
                    if nm not in best or key > best[nm][0]:
                        best[nm] = (key, st["init"])
        for k_, (_, init) in best.items():
            self[k_] = init


def _origin_chain(run, f, rel, node, ident, depth=4):
    """texts of the expressions `ident` (as seen at `node`) is bound from, following let / let-else / if-let bindings and
    plain renamings up to `depth` steps"""
    out = []
    seen = set()
    cur = [ident]
    par = S.Parents(f.body)
    for _ in range(depth):
        nxt = []
        for name in cur:
            if name in seen:
                continue
            seen.add(name)
            best = None
            for b in S.walk(f.body):
                if b["k"] == "Local" and b.get("init") is not None and name in S.pat_bindings(b["pat"]):
                    blk = next((a for a in par.ancestors(b) if a["k"] == "Block"), f.body)
                    if S.span_contains(blk["sp"], node["sp"]) and (b["sp"][0], b["sp"][1]) <= (node["sp"][0], node["sp"][1]):
                        key = (b["sp"][0], b["sp"][1])
                        if best is None or key > best[0]:
                            best = (key, b["init"])
                elif b["k"] == "Let" and name in S.pat_bindings(b["pat"]):
                    iff = next((a for a in par.ancestors(b) if a["k"] == "If"), None)
                    if iff is not None and S.span_contains(iff["then"]["sp"], node["sp"]):
                        key = (b["sp"][0], b["sp"][1])
                        if best is None or key > best[0]:
                            best = (key, b["expr"])
            if best is None:
                continue
            init = best[1]
            out.append(S.norm_ws(run.facts.text(rel, init["sp"])))
            nxt.extend(i for i in S.idents(init) if i not in seen)
        cur = nxt
        if not cur:
            break
    return out


def r07_7(run, model):
    run.rule("R07.7", "an instance is requested under the name of the generic definition that was found: the first argument of "
                      "ensure_instance in mono_expr is the `.name` of the definition found in the function table (methods of a generic impl are stored under the generic name; "
                      "the call-site name is not a key of the function table)")
    f = model.inlined_fn(model.fn("mono_expr", MONO))
    lets = {}
    for l in S.find(f.body, "Local"):
        if l["pat"]["k"] == "PIdent" and l.get("init") is not None:
            lets[l["pat"]["name"]] = l["init"]
    n = 0
    for c in S.walk(f.body):
        if c["k"] == "MethodCall" and c["method"] == "ensure_instance" and c["args"]:
            n += 1
            a = c["args"][0]
            ids = S.idents(a)
            chain = [S.norm_ws(run.facts.text(MONO, a["sp"]))]
            for i in ids:
                chain += _origin_chain(run, f, MONO, c, i)
            src = " <- ".join(chain)
            # the name is read from the definition found in the function table: `<def>.name` with <def> obtained from orig_fns
            ok = re.search(r"\b\w+\.name\b", src) is not None and "orig_fns" in src
            run.ob("R07.7", f"mono_expr|instance #{n} requested under the definition's name", ok, site(MONO, c["sp"]), f"ensure_instance({S.norm_ws(run.facts.text(MONO, a['sp']))}, ..) where it is `{src[:50]}`",
                   witness="impl[T] Maybe[T] { fn or_else(..) }: m.or_else(0) queues `inherent#Maybe#Maybe[int32]#or_else`, mono panics `unknown function`")
    run.floor("ensure_instance calls in mono_expr", n, 1)


def r07_9(run, model):
    run.rule("R07.9", "a call is redirected to a specialised function only through ensure_instance: every function name mono_expr writes into a "
                      "rebuilt callee (MonoExpr::EVar { name: N }) is the unchanged call-site name, the result of ensure_instance, or a trait "
                      "impl name built by trait_impl_fn_name - never a remembered instance name (polymorphic recursion f[A,B] -> f[B,A])")
    f = model.inlined_fn(model.fn("mono_expr", MONO))
    lets = {}
    for l in S.find(f.body, "Local"):
        if l["pat"]["k"] == "PIdent" and l.get("init") is not None:
            lets[l["pat"]["name"]] = l["init"]
    n = 0
    for st in S.find(f.body, "Struct"):
        if st["segs"][0] != "MonoExpr" or st["segs"][-1] != "EVar":
            continue
        lets = _ScopedLets(f, st)
        for fl in st["fields"]:
            if fl["name"] != "name":
                continue
            e = fl["expr"]
            t = S.norm_ws(run.facts.text(MONO, e["sp"]))
            base = e
            while base["k"] == "MethodCall" and base["method"] in ("clone", "to_string", "to_owned") and not base["args"]:
                base = base["recv"]
            if base["k"] == "Path" and len(base["segs"]) == 1 and base["segs"][0] == "name":
                continue  # the arm for a variable: pattern-bound name passed through
            n += 1
            src = t
            if e["k"] == "Path" and len(e["segs"]) == 1 and e["segs"][0] in lets:
                src = S.norm_ws(run.facts.text(MONO, lets[e["segs"][0]]["sp"]))
            ok = re.search(r"ensure_instance\(|trait_impl_fn_name\(|inherent_method_fn_name\(", src) is not None
            run.ob("R07.9", f"mono_expr|callee name `{t[:20]}` comes from ensure_instance", ok, site(MONO, st["sp"]), f"name: {t} = {src[:60]}",
                   witness="fn alternate[A, B](a: A, b: B, n) { .. alternate(b, a, n - 1) }: the recursive call at swapped types is redirected to the instance being generated: ill-typed Go, the other instance is never generated")
    run.floor("callee names written by mono_expr", n, 2)


MONO_TY_LEDGER = {("EPrim", "ty"): "primitive literal types contain no type parameter"}


def r07_8(run, model, only=None):
    run.rule("R07.8", "every type written into a specialised node is substituted: in mono_expr each `ty` / `for_ty` field of a rebuilt MonoExpr is "
                      "`subst_ty(..)`, a local bound to it, or the type of an already specialised child")
    f = model.inlined_fn(model.fn("mono_expr", MONO))
    lets = {}
    for l in S.find(f.body, "Local"):
        if l["pat"]["k"] == "PIdent" and l.get("init") is not None:
            lets[l["pat"]["name"]] = l["init"]
    n = 0
    for st in S.find(f.body, "Struct"):
        if st["segs"][0] != "MonoExpr" or (only is not None and st["segs"][-1] not in only):
            continue
        lets = _ScopedLets(f, st)
        for fl in st["fields"]:
            if fl["name"] not in ("ty", "for_ty"):
                continue
            n += 1
            e = fl["expr"]
            t = S.norm_ws(run.facts.text(MONO, e["sp"]))

            def substituted(x, depth=0):
                """every way `x` can be evaluated yields a type that went through the substitution"""
                k = x["k"]
                if depth > 6:
                    return False
                if k in ("Call", "MethodCall"):
                    cn = S.callee_name(x) or ""
                    if re.search(r"subst|^inst_|^get_ty$", cn):
                        return True
                    if k == "Call" and cn == "new" and x["args"]:
                        return substituted(x["args"][0], depth + 1)
                    if k == "MethodCall":
                        if any(y["k"] in ("Call", "MethodCall") and re.search(r"subst|^inst_|^get_ty$", S.callee_name(y) or "") for y in S.walk(x)):
                            return True     # an adaptor chain whose closure substitutes / reads the type of a specialised child
                        r = x
                        while r["k"] == "MethodCall":
                            r = r["recv"]
                        return substituted(r, depth + 1)
                    return False
                if k == "Path":
                    if len(x["segs"]) == 1:
                        return x["segs"][0] in lets and substituted(lets[x["segs"][0]], depth + 1)
                    return True      # a constant type
                if k == "Field":
                    return substituted(x["base"], depth + 1)
                if k in ("Ref", "Unary"):
                    return substituted(x["expr"], depth + 1) if x.get("expr") else False
                if k == "Match":
                    return bool(x["arms"]) and all(substituted(a["body"], depth + 1) for a in x["arms"])
                if k == "If":
                    return x.get("else") is not None and substituted(x["then"], depth + 1) and substituted(x["else"], depth + 1)
                if k == "Block":
                    last = x["stmts"][-1] if x["stmts"] else None
                    return last is not None and last["k"] == "ExprStmt" and substituted(last["expr"], depth + 1)
                if k == "Struct":
                    return all(substituted(f_["expr"], depth + 1) for f_ in x["fields"])
                return False
            ok = substituted(e)
            led = MONO_TY_LEDGER.get((st["segs"][-1], fl["name"]))
            run.ob("R07.8", f"mono_expr|{st['segs'][-1]}.{fl['name']} is substituted" + ("" if ok or led else f" (`{t[:24]}`)"), ok or led is not None, site(MONO, st["sp"]),
                   f"{fl['name']}: {t[:50]}" + (f"; ledger: {led}" if led and not ok else ""),
                   witness="fn pair[T](x: T, y: T) { let arr = [x, y]; .. }: the literal keeps type [T; 2]; the emitted Go declares `var arr [2]T`")
    run.floor("type fields of rebuilt nodes in mono_expr", n, 20 if only is None else len(only))


def r07_4(run, model):
    run.rule("R07.4", "a call site's substitution is derived from the argument types and from the result type: in mono_expr's call arm "
                      "unify is applied to each parameter/argument pair and, unconditionally, to (callee return type, call type)")
    f = model.inlined_fn(model.fn("mono_expr", MONO))
    calls = [c for c in S.calls(f.body, "unify") if c["k"] == "Call"]
    par = S.Parents(f.body)
    ret_calls = []
    arg_calls = []
    for c in calls:
        a0 = S.norm_ws(run.facts.text(MONO, c["args"][0]["sp"])) if c["args"] else ""
        if "ret_ty" in a0 or "ret" in a0.split(".")[-1]:
            ret_calls.append(c)
        else:
            arg_calls.append(c)
    run.ob("R07.4", "mono_expr|parameter types unified with argument types", bool(arg_calls), site(MONO, f.node["sp"]), f"{len(arg_calls)} unify calls on parameters")
    ok = False
    detail = "no unify(callee.ret_ty, call type) in mono_expr"
    for c in ret_calls:
        guards = []
        for a in par.ancestors(c):
            if a["k"] == "If":
                ct = S.norm_ws(run.facts.text(MONO, a["cond"]["sp"]))
                if S.span_contains(a["then"]["sp"], c["sp"]) and not ct.startswith("letErr") and "unify(" not in ct:
                    guards.append(ct)
            if a["k"] == "Binary" and a["op"] == "&&" and S.span_contains(a["right"]["sp"], c["sp"]):
                guards.append(S.norm_ws(run.facts.text(MONO, a["left"]["sp"])))
            if a["k"] in ("Arm",):
                break
        # a guard on the call being generic at all (`fn_is_generic`) is fine; a guard on the *substitution* is not
        # local booleans used as guards: expand to their initialiser text
        exp = []
        for g in guards:
            exp.append(g)
            for nm in re.findall(r"[a-z_][a-z0-9_]*", g):
                for l in S.find(f.body, "Local"):
                    if l["pat"]["k"] == "PIdent" and l["pat"]["name"] == nm and l.get("init") is not None:
                        exp.append(S.norm_ws(run.facts.text(MONO, l["init"]["sp"])))
        bad = [g for g in exp if re.search(r"subst|generics\.iter\(\)|contains_key|is_empty\(\)|all_bound", g)]
        if not bad:
            ok = True
            detail = "unify(callee.ret_ty, call type) is applied whenever the arguments are"
        else:
            detail = f"the return-type unification is guarded by `{bad[0][:80]}`"
    run.ob("R07.4", "mono_expr|return type unified unconditionally", ok, site(MONO, f.node["sp"]), detail,
           witness="fn empty[T]() -> List[T] called at List[int32] and List[string] yields one `empty` returning List__T")


def r07_5(run, model):
    run.rule("R07.5", "memoise before recursing (termination on recursive types): in a caching instantiator (lookup with early return, later insert) "
                      "every call that can re-enter the function - directly or through a mutually recursive helper of the same impl - is dominated by "
                      "the insert into the cache")
    n = 0
    impls = {}
    for f in model.fns(MONO):
        if f.body is not None and f.impl:
            impls.setdefault(f.impl, {})[f.name] = f
    for impl, fns in impls.items():
        calls = {name: {S.callee_name(c) for c in S.calls(f.body) if c["k"] == "MethodCall" and S.is_path(c["recv"], "self") and S.callee_name(c) in fns} for name, f in fns.items()}

        def reaches(a, b, seen=None):
            seen = seen or set()
            if a in seen:
                return False
            seen.add(a)
            return b in calls[a] or any(reaches(x, b, seen) for x in calls[a])

        for name, f in fns.items():
            body = f.body
            gets = [c for c in S.walk(body) if c["k"] == "MethodCall" and c["method"] == "get" and c["recv"]["k"] == "Field" and S.is_path(c["recv"]["base"], "self")]
            if not gets:
                continue
            memo = gets[0]["recv"]["member"]
            inserts = [c for c in S.walk(body) if c["k"] == "MethodCall" and c["method"] == "insert" and c["recv"]["k"] == "Field" and c["recv"]["member"] == memo and S.is_path(c["recv"]["base"], "self")]
            if not inserts:
                continue
            rec = [c for c in S.walk(body) if c["k"] == "MethodCall" and S.is_path(c["recv"], "self") and S.callee_name(c) in fns
                   and (S.callee_name(c) == name or reaches(S.callee_name(c), name))]
            if not rec:
                continue
            n += 1
            par = S.Parents(body)
            bad = []
            for c in rec:
                anc = [a for a in par.ancestors(c) if a["k"] == "Block"] + [body]
                dom = False
                for ins in inserts:
                    if (ins["sp"][0], ins["sp"][1]) >= (c["sp"][0], c["sp"][1]):
                        continue
                    # the insert statement must sit directly in a block that encloses the recursive call
                    st = ins
                    while par.parent(st) is not None and par.parent(st)["k"] != "Block":
                        st = par.parent(st)
                    blk = par.parent(st) or body
                    if any(blk is a for a in anc):
                        dom = True
                if not dom:
                    bad.append(c["sp"][0])
            run.ob("R07.5", f"{impl}::{name}|cache `{memo}` filled before re-entrant calls", not bad, site(MONO, f.node["sp"]),
                   f"{len(rec)} re-entrant calls; not dominated by self.{memo}.insert: lines {bad or 'none'}",
                   witness="struct Tree[T] { label: T, kids: Vec[Tree[T]] }: instantiating Tree[int32] re-enters itself before the name is cached and the compiler overflows its stack")
    run.floor("caching instantiators with re-entrant calls", n, 1)


def r07_6(run, model):
    run.rule("R07.6", "the specialiser honours the typer's choice of callee: in mono_expr's call arm the function the call names is looked up first "
                      "(orig_fns.get(func_name)); the generic inherent-method index is only a fallback (inside or_else)")
    f = model.inlined_fn(model.fn("mono_expr", MONO))
    found = False
    par = S.Parents(f.body)
    for top in S.walk(f.body):
        # the lookup is the method chain that consults the generic inherent-method index, wherever it is written (a local, a helper)
        if top["k"] != "MethodCall":
            continue
        up = par.parent(top)
        if up is not None and up["k"] == "MethodCall" and up.get("recv") is top:
            continue    # not the end of its chain
        if "inherent_method_index" not in S.norm_ws(run.facts.text(MONO, top["sp"])):
            continue
        if any(a_["k"] == "Closure" and S.span_contains(a_["sp"], top["sp"]) for a_ in par.ancestors(top)):
            continue    # a chain inside the fallback closure itself
        found = True
        e = top
        order = []
        while e["k"] == "MethodCall":
            order.append((e["method"], e))
            e = e["recv"]
        order.reverse()
        # a chain that starts at a named intermediate result (`let exact = ctx.orig_fns.get(name); exact.or_else(..)`) continues in its initialiser
        hops = 0
        while e["k"] == "Path" and len(e["segs"]) == 1 and hops < 3:
            inits = [l["init"] for l in S.find(f.body, "Local") if l["pat"]["k"] == "PIdent" and l["pat"]["name"] == e["segs"][0] and l.get("init") is not None]
            if len(inits) != 1:
                break
            e = inits[0]
            pre = []
            while e["k"] == "MethodCall":
                pre.append((e["method"], e))
                e = e["recv"]
            pre.reverse()
            order = pre + order
            hops += 1
        first = order[0] if order else None
        root_field = e.get("member") if e["k"] == "Field" else None
        arg0 = first[1]["args"][0] if first and first[1]["args"] else None
        while arg0 is not None and arg0["k"] in ("Ref", "Paren"):
            arg0 = arg0["expr"]
        exact_first = first is not None and first[0] == "get" and root_field == "orig_fns" and arg0 is not None and arg0["k"] == "Path" and len(arg0["segs"]) == 1
        idx_in_fallback = any(m == "or_else" and "inherent_method_index" in S.norm_ws(run.facts.text(MONO, n_["args"][0]["sp"])) for m, n_ in order if n_["args"])
        idx_elsewhere = any("inherent_method_index" in S.norm_ws(run.facts.text(MONO, x_["sp"])) for m, n_ in order if m != "or_else" for x_ in n_["args"]) or \
            "inherent_method_index" in S.norm_ws(run.facts.text(MONO, e["sp"]))
        ok = exact_first and idx_in_fallback and not idx_elsewhere
        run.ob("R07.6", "mono_expr|exact callee before generic index", ok, site(MONO, top["sp"]),
               "lookup chain: " + " . ".join(m for m, _ in order) + ("" if ok else " - the generic index is consulted before the exact name"),
               witness="impl[T] Box[T] { fn describe } and impl Box[int32] { fn describe }: a.describe() on Box[int32] runs an instance of the generic method although the typer chose the concrete one")
    if not found:
        raise AnalysisIncomplete("mono_expr: callee lookup not found")


def r07_11(run, model):
    run.rule("R07.11", "every instance reachable from main is generated: a reference to a generic function is specialised wherever it occurs - "
                       "mono_expr queues an instance (ensure_instance) in its EVar arm too, not only for the function of an ECall")
    f = model.inlined_fn(model.fn("mono_expr", MONO))
    ms = list(S.find(f.body, "Match"))
    if not ms:
        raise AnalysisIncomplete("mono_expr: match not found")
    arms = {}
    for arm in ms[0]["arms"]:
        for a in S.pat_alts(arm["pat"]):
            h = S.pat_head(a)
            if h[0] == "variant":
                arms[h[1][-1]] = arm
    if "EVar" not in arms or "ECall" not in arms:
        raise AnalysisIncomplete("mono_expr: EVar / ECall arms not found")
    call_ok = any(c["k"] == "MethodCall" and c["method"] == "ensure_instance" for c in S.walk(arms["ECall"]["body"]))
    var_ok = any(c["k"] == "MethodCall" and c["method"] == "ensure_instance" for c in S.walk(arms["EVar"]["body"]))
    run.ob("R07.11", "mono_expr|ECall specialises its generic callee", call_ok, site(MONO, arms["ECall"]["sp"]), f"ensure_instance in the ECall arm: {call_ok}")
    run.ob("R07.11", "mono_expr|EVar specialises a generic function used as a value", var_ok, site(MONO, arms["EVar"]["sp"]),
           f"ensure_instance in the EVar arm: {var_ok}",
           witness="fn id[T](x: T) -> T { x } ... apply(id, 5) / let g: (int32) -> int32 = id: Mono keeps the name `id`, no instance of id is "
                   "generated and the Go output calls an undefined function")


def r07_12(run, model):
    run.rule("R07.12", "specialisation terminates: the instance work list is bounded (a limit on the size of the type arguments or on the number "
                       "of instances of one function, answered by a diagnostic) - polymorphic recursion is accepted by the type checker, so "
                       "nothing else stops `f[T]` from requesting `f[(T, T)]` for ever")
    f = model.fn("ensure_instance", MONO, impl="Ctx")
    g = model.fn("mono", MONO)
    limits = []
    for fn_ in (f, g):
        for iff in S.find(fn_.body, "If"):
            c = S.norm_ws(run.facts.text(MONO, iff["cond"]["sp"]))
            if re.search(r"(len\(\)|depth|size|count)\w*\s*(>=|>)|\b[A-Z][A-Z_]{3,}\b", c):
                limits.append(c[:60])
    tm = model.fn("ensure_instance", MONO, impl="TypeMono")
    tlimits = []
    for fn_ in (tm, model.fn("collapse_type_apps", MONO, impl="TypeMono")):
        for iff in S.find(fn_.body, "If"):
            c = S.norm_ws(run.facts.text(MONO, iff["cond"]["sp"]))
            if re.search(r"(len\(\)|depth|size|count)\w*\s*(>=|>)|\b[A-Z][A-Z_]{3,}\b", c):
                tlimits.append(c[:60])
    run.ob("R07.12", "TypeMono::ensure_instance|type specialisation is bounded", bool(tlimits), site(MONO, tm.node["sp"]),
           f"limit tests in TypeMono::ensure_instance / collapse_type_apps: {tlimits or 'none'}",
           witness="enum Nested[T] { Flat(T), Deep(Nested[Vec[T]]) } with one Nested::Flat(1): no function is generic, the definition pass "
                   "instantiates Nested[Vec[int32]], Nested[Vec[Vec[int32]]], … until the stack overflows")
    run.ob("R07.12", "Ctx::ensure_instance|specialisation is bounded", bool(limits), site(MONO, f.node["sp"]),
           f"limit tests in ensure_instance / the work loop: {limits or 'none'}",
           witness="fn grow[T](x: T, n: int32) -> int32 { if n == 0 { 0 } else { grow((x, x), n - 1) } } is accepted; mono queues grow[(T,T)], "
                   "grow[((T,T),(T,T))], … until memory is exhausted")


def r07_13(run, model):
    run.rule("R07.13", "an instance is keyed by the bindings of its own type parameters only: the substitution handed to ensure_instance in "
                       "mono_expr is built from nothing but this use's unification - it does not start from the substitution of the instance "
                       "being generated (type parameter names of caller and callee share no name space)")
    f = model.inlined_fn(model.fn("mono_expr", MONO))
    params = [p["pat"]["name"] for p in f.params() if not p["self"] and p["pat"]["k"] == "PIdent"]
    outer = [p for p, q in zip(params, f.params()) if "Subst" in (q["ty"] or "")]
    if not outer:
        raise AnalysisIncomplete("mono_expr: substitution parameter not found")
    n = 0
    for c in S.walk(f.body):
        if c["k"] != "MethodCall" or c["method"] != "ensure_instance" or len(c["args"]) < 2:
            continue
        n += 1
        a = c["args"][1]
        chain = [S.norm_ws(run.facts.text(MONO, a["sp"]))]
        for i in S.idents(a):
            chain += _origin_chain(run, f, MONO, c, i, depth=2)
        leak = [t for t in chain if re.search(r"^(&?mut)?" + outer[0] + r"(\.clone\(\))?$|=" + outer[0] + r"\.clone\(\)", t) or t in (outer[0], outer[0] + ".clone()")]
        run.ob("R07.13", f"mono_expr|instance #{n} is keyed by its own bindings", not leak, site(MONO, c["sp"]),
               f"substitution argument: {' <- '.join(chain)[:120]}",
               witness="fn outer[T](..) { pair_of(1) } with pair_of[U]: the instance is requested as pair_of[T=int32, U=int32] from outer and as "
                       "pair_of[U=int32] from main - generated twice; dup[T] called at (T, T) inside nest[T] panics `conflicting bindings for T`")
    run.floor("ensure_instance calls in mono_expr", n, 2)


def r07_16(run, model):
    run.rule("R07.16", "a generic definition is instantiated before its nested applications are named: where TypeMono builds the fields or "
                       "payloads of an instance, the type handed to collapse_type_apps is the result of subst_ty on the definition's type "
                       "(collapsing first names `Box[T]` as the instance `Box__T`; the parameter is then out of the substitution's reach)")
    f_sub = "subst_ty"
    n = 0
    for f in model.fns(MONO):
        if f.body is None or f.impl != "TypeMono":
            continue
        coll = [c for c in S.walk(f.body) if c["k"] == "MethodCall" and c["method"] == "collapse_type_apps" and S.is_path(c["recv"], "self")]
        subs = [c for c in S.walk(f.body) if c["k"] == "Call" and S.callee_name(c) == f_sub]
        if not coll or not subs:
            continue
        lets = {}
        for l in S.find(f.body, "Local"):
            if l["pat"]["k"] == "PIdent" and l.get("init") is not None:
                lets.setdefault(l["pat"]["name"], []).append(l["init"])

        def from_subst(e, depth=0):
            if any(x["k"] == "Call" and S.callee_name(x) == f_sub for x in S.walk(e)):
                return True
            return depth < 3 and any(from_subst(i, depth + 1) for nm in S.idents(e) for i in lets.get(nm, []) if i is not e)

        par16 = S.Parents(f.body)

        def rebound(e):
            """names that mean a closure parameter, a loop variable or a pattern variable where `e` stands (not a `let` of the function)"""
            out = set()
            for a_ in par16.ancestors(e):
                if a_["k"] == "Closure":
                    for p_ in a_.get("params") or a_.get("inputs") or []:
                        out.update(S.pat_bindings(p_.get("pat", p_)))
                elif a_["k"] == "For":
                    out.update(S.pat_bindings(a_["pat"]))
            return out

        def from_collapse(e, depth=0, shadow=None):
            if any(x["k"] == "MethodCall" and x["method"] == "collapse_type_apps" for x in S.walk(e)):
                return True
            shadow = rebound(e) if shadow is None else shadow
            return depth < 3 and any(from_collapse(i, depth + 1, set()) for nm in S.idents(e) - shadow for i in lets.get(nm, []) if i is not e)
        for c in coll:
            n += 1
            ok = bool(c["args"]) and from_subst(c["args"][0])
            run.ob("R07.16", f"{f.name}|collapse #{sum(1 for x in coll if (x['sp'][0], x['sp'][1]) <= (c['sp'][0], c['sp'][1]))} works on a substituted type", ok, site(MONO, c["sp"]),
                   f"argument `{S.norm_ws(run.facts.text(MONO, c['args'][0]['sp']))[:40]}` " + ("derives from subst_ty" if ok else "does not derive from subst_ty"),
                   witness="struct Wrap[T] { inner: Box[T] }: Wrap__int32 and Wrap__string both get the field `inner Box__T`, a type that is never declared")
        for c in subs:
            bad = bool(c["args"]) and from_collapse(c["args"][0])
            if bad:
                run.ob("R07.16", f"{f.name}|substitution applied to an already collapsed type", False, site(MONO, c["sp"]),
                       f"argument `{S.norm_ws(run.facts.text(MONO, c['args'][0]['sp']))[:40]}` derives from collapse_type_apps")
    run.floor("collapses of instantiated definition types", n, 2)


def r07_17(run, model):
    run.rule("R07.17", "type parameters are replaced simultaneously: no call of a parameter-substitution function (one that takes a map from "
                       "parameter names to types) feeds its own result back in from one round of a loop to the next with a map built inside "
                       "that loop - replacing the parameters one at a time lets an argument that mentions a later parameter's name be "
                       "replaced again (`Pair[B, A]` read through `struct Pair[A, B]`)")
    n = 0
    seq = {}
    for rel in ("crates/compiler/src/typer/unify.rs", "crates/compiler/src/typer/check.rs", "crates/compiler/src/typer/toplevel.rs",
                "crates/compiler/src/typer/util.rs", MONO):
        substs = {}
        for g in model.fns(rel):
            ps = [p for p in g.params() if not p["self"]]
            idx = [i for i, p in enumerate(ps) if re.search(r"HashMap<String,(tast::)?Ty>|&Subst\b", (p["ty"] or "").replace(" ", ""))]
            if idx and g.body is not None and re.search(r"(^|::)Ty$", (g.node.get("ret") or "").replace(" ", "")):
                substs[g.name] = idx[0]
            elif g.body is not None and re.search(r"(^|::)Ty$", (g.node.get("ret") or "").replace(" ", "")):
                # ... or one that replaces a single named parameter: its TParam arm answers with one of the function's own parameters
                pn = [p["pat"].get("name") for p in ps]
                for m_ in S.find(g.body, "Match"):
                    for a_ in m_["arms"]:
                        if "TParam" in S.norm_ws(run.facts.text(rel, a_["pat"]["sp"])):
                            hit = [i for i, nm_ in enumerate(pn) if nm_ and i > 0 and nm_ in S.idents(a_["body"]) and
                                   re.search(r"(^|::|&)Ty$", (ps[i]["ty"] or "").replace(" ", ""))]
                            if hit:
                                substs[g.name] = hit[0]
        for f in model.fns(rel):
            if f.body is None:
                continue
            par = None
            for c in S.walk(f.body):
                if c["k"] not in ("Call", "MethodCall") or S.callee_name(c) not in substs or S.callee_name(c) == f.name:
                    continue
                n += 1
                if par is None:
                    par = S.Parents(f.body)
                loop = next((a for a in par.ancestors(c) if a["k"] in ("For", "While", "Loop")), None)
                bad = False
                why = "not in a loop"
                # a fold is a loop whose carried value is the closure's first parameter
                fold = next((a for a in par.ancestors(c) if a["k"] == "Closure" and (par.parent(a) or {}).get("k") == "MethodCall" and
                             par.parent(a)["method"] in ("fold", "try_fold", "rfold") and any(x is a for x in par.parent(a)["args"])), None)
                if loop is None and fold is not None and fold.get("inputs"):
                    accs = set(S.pat_bindings(fold["inputs"][0] if fold["inputs"][0]["k"] != "PTuple" else fold["inputs"][0]["elems"][0]))
                    mi = substs[S.callee_name(c)]
                    others = [a for i, a in enumerate(c["args"]) if i != mi]
                    fed = any(S.idents(o) & accs for o in others)
                    bad = fed
                    why = f"inside a fold; the accumulated type is substituted again each round: {fed}"
                if loop is not None:
                    mi = substs[S.callee_name(c)]
                    marg = c["args"][mi] if len(c["args"]) > mi else None
                    inside = marg is not None and (any(x["k"] in ("Call", "Macro") for x in S.walk(marg)) or any(
                        S.span_contains(loop["sp"], l["sp"]) for l in S.find(f.body, "Local") if set(S.pat_bindings(l["pat"])) & S.idents(marg)))
                    others = [a for i, a in enumerate(c["args"]) if i != mi]
                    carried = {a["left"]["segs"][0] for a in S.walk(loop) if a["k"] == "Assign" and a["left"]["k"] == "Path" and len(a["left"]["segs"]) == 1 and
                               S.span_contains(a["right"]["sp"], c["sp"])}
                    fed = any(S.idents(o) & carried for o in others)
                    bad = inside and fed
                    why = f"in a loop; map built inside it: {inside}; result fed back: {fed}"
                seq[(f.name, S.callee_name(c))] = seq.get((f.name, S.callee_name(c)), 0) + 1
                run.ob("R07.17", f"{f.name}|call #{seq[(f.name, S.callee_name(c))]} of {S.callee_name(c)} replaces all parameters at once", not bad, site(rel, c["sp"]), why,
                       witness="struct Pair[A, B] { fst: A, snd: B } fn both[B: Show, A: Show](p: Pair[B, A]): p.fst is typed A instead of B; the "
                               "instance at B = int32, A = string calls the string impl on the int32 field")
    run.floor("calls of parameter-substitution functions", n, 27)


def r07_18(run, model):
    run.rule("R07.18", "`Self` stays inside the trait: a trait method signature is specialised (mono) and searched for helper types (Go back end) "
                       "only under a test that `Self` occurs as the receiver only - `Self` is an ordinary struct name to both passes, so "
                       "`fn checked(Self) -> Opt[Self]` would otherwise instantiate `Opt__Self` and declare `Tuple2_Self_Self`, types over an "
                       "undeclared `Self`")
    GOC = "crates/compiler/src/go/compile.rs"
    ENV = "crates/compiler/src/env.rs"
    selfpreds = set()
    for rel in (ENV, MONO, GOC, "crates/compiler/src/tast.rs"):
        for g in model.fns(rel):
            if g.body is not None and re.search(r'"Self"', run.facts.text(rel, g.body["sp"])):
                selfpreds.add(g.name)
    grew = True
    while grew:
        grew = False
        for rel in (ENV, MONO, GOC):
            for g in model.fns(rel):
                if g.body is not None and g.name not in selfpreds and any(S.callee_name(c) in selfpreds for c in S.walk(g.body) if c["k"] in ("Call", "MethodCall")):
                    if (g.node.get("ret") or "").strip() == "bool":
                        selfpreds.add(g.name)
                        grew = True
    sites = []
    for rel, leaf in ((MONO, "collapse_type_apps"), (GOC, "collect_type")):
        for f in model.fns(rel):
            if f.body is None:
                continue
            for l in S.walk(f.node):
                if l["k"] not in ("For", "MethodCall"):
                    continue
                # an iteration over the methods of trait definitions that applies the leaf to a scheme's type
                if l["k"] == "For":
                    src, body = S.norm_ws(run.facts.text(rel, l["iter"]["sp"])), l["body"]
                else:
                    if l["method"] not in ("map", "for_each") or not l["args"] or l["args"][0]["k"] != "Closure":
                        continue
                    src, body = S.norm_ws(run.facts.text(rel, l["recv"]["sp"])), l["args"][0]["body"]
                if "methods" not in src:
                    continue
                for c in S.walk(body):
                    if c["k"] in ("Call", "MethodCall") and S.callee_name(c) == leaf and any("scheme" in S.idents(a) or ".ty" in S.norm_ws(run.facts.text(rel, a["sp"])) for a in c["args"]):
                        sites.append((rel, f, body, c))
    seen = set()
    for rel, f, body, c in sites:
        k = (rel, c["sp"][0], c["sp"][1])
        if k in seen:
            continue
        seen.add(k)
        par = S.Parents(body)
        guards = [a for a in par.ancestors(c) if a["k"] == "If" and S.span_contains(a["then"]["sp"], c["sp"]) and
                  any(S.callee_name(x) in selfpreds for x in S.walk(a["cond"]) if x["k"] in ("Call", "MethodCall"))]
        run.ob("R07.18", f"{f.name}|a trait signature is used only when Self is its receiver alone", bool(guards), site(rel, c["sp"]),
               f"{S.callee_name(c)}(..) on a trait method's type; Self-aware guards: {len(guards)} (predicates: {sorted(selfpreds)[:6]})",
               witness="trait Num { fn checked(Self) -> Opt[Self]; fn div_mod(Self, Self) -> (Self, Self); } never used behind dyn: the Go declares "
                       "`Opt__Self_Some { _0 Self }` and `Tuple2_Self_Self`; `Self` is declared nowhere")
    run.floor("uses of trait method signatures by mono and the Go back end", len(seen), 2)


def r07_19(run, model):
    run.rule("R07.19", "the index that finds the generic definition of an inherent method holds generic definitions only: in Ctx::new an entry is "
                       "inserted under (base type, method) only for a function with type parameters - later entries replace earlier ones, so an "
                       "exact-instance method `impl Box[int32] { fn tag }` declared after `impl[T] Box[T] { fn tag }` would take the generic's "
                       "place and calls at other instances would never be specialised")
    f = model.fn("new", MONO, impl="Ctx")
    ins = [c for c in S.walk(f.body) if c["k"] == "MethodCall" and c["method"] in ("insert", "entry") and "index" in S.norm_ws(run.facts.text(MONO, c["recv"]["sp"]))]
    if not ins:
        # the index may be collected from an iterator chain instead of filled by a loop: the test then sits in a filter / filter_map closure
        built = [l for l in S.find(f.body, "Local") if l.get("init") is not None and any("index" in b for b in S.pat_bindings(l["pat"])) and
                 any(c["k"] == "MethodCall" and c["method"] == "collect" for c in S.walk(l["init"]))]
        if not built:
            raise AnalysisIncomplete("Ctx::new: the construction of the inherent-method index was not found")
        for i, l in enumerate(built, 1):
            t = S.norm_ws(run.facts.text(MONO, l["init"]["sp"]))
            ok = re.search(r"!\w+(\.\w+)*\.generics\.is_empty\(\)|generics\.len\(\)>0", t) is not None and \
                any(c["k"] == "MethodCall" and c["method"] in ("filter", "filter_map") for c in S.walk(l["init"]))
            run.ob("R07.19", f"Ctx::new|index entry #{i} is made for generic functions only", ok, site(MONO, l["sp"]),
                   "the collected chain keeps generic definitions only" if ok else "the collected chain does not test `generics`: every inherent method enters the index",
                   witness="impl[T] Box[T] { fn tag } then impl Box[int32] { fn tag }: b.tag() at Box[string] resolves to the int32 method; "
                           "`inherent#Box#Box[T]#tag__T_string` is never generated and the Go calls an undefined function")
        return
    par = S.Parents(f.body)
    for i, c in enumerate(ins, 1):
        guards = [a for a in par.ancestors(c) if a["k"] == "If" and S.span_contains(a["then"]["sp"], c["sp"])]
        ok = any(re.search(r"!\w+(\.\w+)*\.generics\.is_empty\(\)|generics\.len\(\)>0|!\w+\.is_empty\(\)", S.norm_ws(run.facts.text(MONO, g["cond"]["sp"]))) and
                 "generics" in S.norm_ws(run.facts.text(MONO, g["cond"]["sp"])) for g in guards)
        run.ob("R07.19", f"Ctx::new|index entry #{i} is made for generic functions only", ok, site(MONO, c["sp"]),
               f"guards: {[S.norm_ws(run.facts.text(MONO, g['cond']['sp']))[:70] for g in guards] or 'none'}",
               witness="impl[T] Box[T] { fn tag } then impl Box[int32] { fn tag }: b.tag() at Box[string] resolves to the int32 method; "
                       "`inherent#Box#Box[T]#tag__T_string` is never generated and the Go calls an undefined function")


def r07_20(run, model):
    run.rule("R07.20", "an instance is chosen from the use site's type as the enclosing instance sees it: in mono_expr the `actual` side of every "
                       "unification with a generic definition's type went through the substitution of the instance being built (subst_ty, the "
                       "type of an already specialised child) - unifying with the unsubstituted type binds the callee's parameter to the "
                       "caller's parameter `T`, the instance is refused and the generic name survives")
    f = model.inlined_fn(model.fn("mono_expr", MONO))
    u = model.fn("unify", MONO)
    ps = [p["pat"]["name"] for p in u.params() if not p["self"] and p["pat"]["k"] == "PIdent"]
    if len(ps) < 2:
        raise AnalysisIncomplete("mono::unify: (template, actual, ..) parameters not found")
    n = 0
    for c in S.walk(f.body):
        if c["k"] != "Call" or S.callee_name(c) != "unify" or len(c["args"]) < 2:
            continue
        n += 1
        lets = _ScopedLets(f, c)
        a = c["args"][1]
        ids = S.idents(a)
        # a loop variable over a collection: the collection's origin decides
        src = a
        par = S.Parents(f.body)
        for anc in par.ancestors(c):
            if anc["k"] == "For" and ids & set(S.pat_bindings(anc["pat"])):
                its = [x for x in S.idents(anc["iter"]) if x in lets]
                cands = [lets[x] for x in its]
                ok_any = [x for x in cands if re.search(r"subst_ty\(|\.get_ty\(\)", S.norm_ws(run.facts.text(MONO, x["sp"])))]
                src = ok_any[0] if ok_any else (cands[-1] if cands else a)
                break
        t = S.norm_ws(run.facts.text(MONO, src["sp"]))
        ok = re.search(r"subst_ty\(|\.get_ty\(\)", t) is not None
        if not ok and src["k"] in ("Ref", "Unary", "Path"):
            nm = [x for x in S.idents(src) if x in lets]
            ok = bool(nm) and all(re.search(r"subst_ty\(|\.get_ty\(\)", S.norm_ws(run.facts.text(MONO, lets[x]["sp"]))) for x in nm)
        run.ob("R07.20", f"mono_expr|unification #{n} matches against a substituted use type", ok, site(MONO, c["sp"]),
               f"actual side: `{S.norm_ws(run.facts.text(MONO, a['sp']))[:40]}`",
               witness="fn apply_id[T](x: T) -> T { let f = id; f(x) } at T = string: `id` is unified with (T) -> T, the binding T := T is refused and "
                       "the closure captures the undefined Go name `id`")
    run.floor("unifications in mono_expr", n, 3)


def r07_21(run, model):
    run.rule("R07.21", "a function is typed with its own type parameters in scope: every call that builds the typed form of a hir function "
                       "(a callee taking the function and a list of type parameter names) derives that list from the generics of the very "
                       "function it passes - a method of an impl block adds them to the block's, it does not replace them")
    TB_ = "crates/compiler/src/typer/tast_builder.rs"
    builders = {}
    for g in model.fns(TB_):
        ps = [p for p in g.params() if not p["self"] and p["pat"]["k"] == "PIdent"]
        fi = [i for i, p in enumerate(ps) if re.search(r"\bFn\b", p["ty"] or "")]
        ti = [i for i, p in enumerate(ps) if re.fullmatch(r"&\[(\w+::)*TastIdent\]", (p["ty"] or "").replace(" ", ""))]
        if fi and ti:
            builders[g.name] = (fi[0], ti[0])
    if not builders:
        raise AnalysisIncomplete("tast_builder.rs: no builder taking (function, type parameter names)")
    n = 0
    for f in model.fns(TB_):
        if f.body is None:
            continue
        for c in S.walk(f.body):
            if c["k"] != "Call" or S.callee_name(c) not in builders or len(c["args"]) <= max(builders[S.callee_name(c)]):
                continue
            fi, ti = builders[S.callee_name(c)]
            fid = sorted(S.idents(c["args"][fi]))
            if len(fid) != 1:
                raise AnalysisIncomplete(f"{f.name}: the function argument of {S.callee_name(c)} is not a plain name")
            n += 1
            # everything that flows into the list: initialisers of the locals it names and what is pushed/extended into them
            flow = [S.norm_ws(run.facts.text(TB_, c["args"][ti]["sp"]))]
            seen = set()
            work = list(S.idents(c["args"][ti]))
            while work:
                x = work.pop()
                if x in seen:
                    continue
                seen.add(x)
                for l in S.find(f.body, "Local"):
                    if l.get("init") is not None and x in S.pat_bindings(l["pat"]) and l["sp"][0] <= c["sp"][0]:
                        flow.append(S.norm_ws(run.facts.text(TB_, l["init"]["sp"])))
                        work.extend(S.idents(l["init"]))
                for mc in S.walk(f.body):
                    if mc["k"] == "MethodCall" and mc["method"] in ("extend", "push", "append", "extend_from_slice", "insert") and S.idents(mc["recv"]) == {x} and mc["sp"][0] <= c["sp"][0]:
                        for a in mc["args"]:
                            flow.append(S.norm_ws(run.facts.text(TB_, a["sp"])))
                            work.extend(S.idents(a))
            ok = any(re.search(r"\b" + re.escape(fid[0]) + r"\.generics\b", t) for t in flow)
            run.ob("R07.21", f"{f.name}|{S.callee_name(c)} receives the generics of the function it builds", ok, site(TB_, c["sp"]),
                   "type parameter list: " + " <- ".join(t[:40] for t in flow[:4]),
                   witness="impl Box[T] { fn map[U](self: Box[T], f: (T) -> U) -> Box[U] }: U is not a type parameter of the typed method, "
                           "mono never substitutes it and the Go output names the type `U`")
    run.floor("calls that build a typed function", n, 2)


def r07_22(run, model):
    run.rule("R07.22", "mono's unification compares every component: in each arm of mono::unify that takes the same constructor apart on both "
                       "sides, every recursive call is made unconditionally and every component bound by the pattern is used - a component "
                       "that is compared only under a side condition leaves the parameters that occur only there unbound (a generic function "
                       "whose type parameter appears in its result alone gets no instance) and accepts a mismatch")
    u = model.fn("unify", MONO)
    n = 0
    for m in S.find(u.body, "Match"):
        for arm in m["arms"]:
            binds = S.pat_bindings(arm["pat"])
            calls = [c for c in S.walk(arm["body"]) if c["k"] == "Call" and S.callee_name(c) == "unify"]
            if not calls or len(binds) < 2:
                continue
            n += 1
            par = S.Parents(arm["body"])
            def skippable(c):
                # a call under a test is unconditional for our purpose when every way around it ends in the failure result
                for a in par.ancestors(c):
                    if a["k"] == "If":
                        inthen = S.span_contains(a["then"]["sp"], c["sp"])
                        other = a.get("else") if inthen else a["then"]
                        t = S.norm_ws(run.facts.text(MONO, other["sp"])) if other is not None else ""
                        if S.span_contains(a["cond"]["sp"], c["sp"]):
                            continue
                        if other is None or "Err(" not in t or "Ok(" in t:
                            return True
                    elif a["k"] == "Match":
                        for arm2 in a["arms"]:
                            if S.span_contains(arm2["sp"], c["sp"]):
                                continue
                            t = S.norm_ws(run.facts.text(MONO, arm2["body"]["sp"]))
                            if "Err(" not in t or "Ok(" in t:
                                return True
                return False
            cond = [c for c in calls if skippable(c)]
            used = S.idents(arm["body"])
            unused = [b for b in binds if b not in used]
            pt = S.norm_ws(run.facts.text(MONO, arm["pat"]["sp"]))
            ctor = re.search(r"Ty::(\w+)", pt)
            ok = not cond and not unused
            run.ob("R07.22", f"unify|{ctor.group(1) if ctor else pt[:20]}: every component is unified, unconditionally", ok, site(MONO, (cond[0] if cond else arm)["sp"]),
                   (f"{len(cond)} recursive call(s) under a condition" if cond else f"components never looked at: {unused}" if unused else f"{len(calls)} recursive call(s), all unconditional"),
                   witness="fn default_of[T: Default]() -> T called as `let x: int32 = default_of()`: T occurs in the result only, stays unbound, "
                           "and the generic name survives into the Go output")
    run.floor("structural arms of mono::unify", n, 6)


def r07_15(run, model):
    run.rule("R07.15", "no generic application survives in what is emitted: besides function signatures and bodies, mono collapses the field "
                       "types of the definitions it keeps (non-generic structs and enums are emitted as they stand) - in `mono`, outside "
                       "TypeMono::ensure_instance, the struct and enum definitions are rewritten through collapse_type_apps")
    f = model.fn("mono", MONO)
    t = S.norm_ws(run.facts.text(MONO, f.body["sp"]))
    n = 0
    for what, acc in (("struct", r"struct_def_mut|insert_struct|structs_mut"), ("enum", r"enum_def_mut|insert_enum|enums_mut"),
                      ("trait", r"trait_defs")):
        n += 1
        rewrites = False
        # mono() itself or the phase functions it is split into
        for g in model.scope_fns(f):
            for loop in S.find(g.body, "For"):
                lt = S.norm_ws(run.facts.text(MONO, loop["body"]["sp"]))
                if "collapse_type_apps" in lt and re.search(acc, lt):
                    rewrites = True
        run.ob("R07.15", f"mono|field types of the retained {what} definitions are collapsed" if what != "trait" else "mono|method signatures of the trait definitions are collapsed",
               rewrites, site(MONO, f.node["sp"]),
               f"a loop in mono() that rewrites {what} definitions through collapse_type_apps: {rewrites}",
               witness="enum Opt[T] { Some(T), None } struct Holder { v: Opt[int32], n: int32 }: the Go back end panics `generic types not supported in "
                       "Go backend: ty=TEnum(Opt), args=[TInt32]`")


def r07_23(run, model):
    run.rule("R07.23", "an instance is filed and built from the same type arguments: TypeMono::ensure_instance memoises under `(name, args)` and "
                       "substitutes `args` into the definition's fields, whose nested applications come back to ensure_instance with the "
                       "substituted arguments as their key - so the elements of `args` enter the substitution as they are (cloned), never "
                       "through a function that rewrites them first (a collapsed argument gives the recursive field another key and a "
                       "second instance under another name)")
    f = model.fn("ensure_instance", MONO, impl="TypeMono")
    keyed = any(c["k"] == "MethodCall" and c["method"] in ("to_vec", "to_owned", "clone") and c["recv"]["k"] == "Path" and c["recv"]["segs"] == ["args"]
                for c in S.walk(f.body))
    PLAIN = {"clone", "cloned", "to_owned", "iter", "into_iter", "zip", "map", "enumerate", "collect", "insert", "push", "len", "is_empty", "copied", "to_vec"}
    n, bad = 0, []
    for g in model.scope_fns(f):
        if g.body is None:
            continue
        argnames = {p["pat"].get("name") for p in g.params() if not p["self"] and re.search(r"\[\s*(tast::)?Ty\s*\]|Vec<\s*(tast::)?Ty\s*>", p["ty"] or "")}
        if g is f:
            argnames |= {"args"}
        if not argnames:
            continue
        elems = {}  # element variable -> node that binds it
        for loop in S.find(g.body, "For"):
            if S.idents(loop["iter"]) & argnames:
                for b in S.pat_bindings(loop["pat"]):
                    elems[b] = loop
        for c in S.walk(g.body):
            if c["k"] == "MethodCall" and c["method"] in ("map", "for_each", "filter_map", "flat_map") and (S.idents(c["recv"]) & argnames):
                for a in c["args"]:
                    if a["k"] == "Closure":
                        for pp in a["inputs"]:
                            for b in S.pat_bindings(pp):
                                elems[b] = a
        par = S.Parents(g.body)
        for x in S.walk(g.body):
            if x["k"] == "Path" and len(x["segs"]) == 1 and x["segs"][0] in elems and S.span_contains(elems[x["segs"][0]]["sp"], x["sp"]):
                n += 1
                # the innermost call this use is an argument of (receivers of clone & co. are fine)
                cur = x
                for a in par.ancestors(x):
                    if a["k"] in ("Ref", "Unary", "Paren", "Field", "Tuple"):
                        cur = a
                        continue
                    if a["k"] == "MethodCall":
                        if a["recv"] is cur and a["method"] in PLAIN:
                            cur = a
                            continue
                        if a["method"] in PLAIN and a["recv"] is not cur:
                            break  # insert(.., a.clone()) / push(a)
                        bad.append((g, a, a["method"]))
                    elif a["k"] == "Call":
                        nm = S.callee_name(a) or "?"
                        if nm not in ("Some", "Box::new", "new"):
                            bad.append((g, a, nm))
                    break
    for g, a, nm in bad:
        run.ob("R07.23", f"{g.name}|a type argument enters the substitution unchanged (not through {nm})", False, site(MONO, a["sp"]),
               f"an element of the argument list is handed to `{nm}` on its way into the substitution",
               witness="enum List[T] { Nil, Cons(T, List[T]) } at List[Opt[int32]]: the field List[T] becomes List[Opt__int32], a second instance "
                       "`List__Opt__int32` next to `List__Opt[int32]`; the recursive field points at the wrong one")
    run.ob("R07.23", "TypeMono::ensure_instance|key and substitution are built from one argument list", keyed and not bad, site(MONO, f.node["sp"]),
           f"memo key built from `args`: {keyed}; uses of argument elements examined: {n}; rewritten on the way: {len(bad)}")


def r07_25(run, model):
    run.rule("R07.25", "the text an instance is named by says everything about the type: instance and impl names are `ty_compact(ty)`, which is "
                       "the pretty printer's rendering with the blanks removed - so `Ty::to_doc` (pprint/tast_pprint.rs), though a printer, is held to "
                       "the standard of a naming function: an arm for every child-carrying former that uses every child, and no adaptor that "
                       "shortens a list of components (take / skip / step_by / truncate / take_while / skip_while / nth) - two types that "
                       "differ only in an elided component would share one name")
    from lib import tytrav as T
    PP = "crates/compiler/src/pprint/tast_pprint.rs"
    names = model.fn("ty_compact", "crates/compiler/src/names.rs")
    uses_printer = any(c["k"] == "MethodCall" and c["method"] in ("to_pretty", "to_doc") for c in S.walk(names.body))
    if not uses_printer:
        run.ob("R07.25", "ty_compact|renders through the type printer", True, site(names.file, names.node["sp"]), "ty_compact has a renderer of its own (audited as a Ty traversal)")
        return
    f = model.fn("to_doc", PP, impl="Ty")
    ms = list(S.find(f.body, "Match"))
    if not ms:
        raise AnalysisIncomplete("Ty::to_doc: no match")
    kids = T.child_variants(model)
    seen = {}
    for arm in ms[0]["arms"]:
        for alt in S.pat_alts(arm["pat"]):
            h = S.pat_head(alt)
            if h[0] == "variant":
                seen.setdefault(h[1][-1], []).append((arm, alt))
    from lib import passes as P
    for v, ks in sorted(kids.items()):
        arms = seen.get(v, [])
        ok = bool(arms)
        why = "no arm of its own"
        for arm, alt in arms:
            b, _rest = P.arm_field_bindings(alt)
            ids = S.idents(arm["body"])
            for k in ks:
                nm = b.get(k)
                used = isinstance(nm, str) and nm in ids or (isinstance(nm, tuple) and any(x in ids for x in nm))
                if not used:
                    ok, why = False, f"component `{k}` is not rendered"
        run.ob("R07.25", f"Ty::to_doc|{v} renders every component", ok, site(PP, (arms[0][0] if arms else f.node)["sp"]), "all components rendered" if ok else why,
               witness="a former whose component is missing from the name: two instances share one Go function")
    SHORT = {"take", "skip", "step_by", "truncate", "take_while", "skip_while", "nth", "split_off", "pop", "last"}
    cuts = sorted({c["method"] for c in S.find(f.body, "MethodCall") if c["method"] in SHORT})
    run.ob("R07.25", "Ty::to_doc|no list of components is shortened", not cuts, site(PP, f.node["sp"]), f"shortening adaptors: {cuts or 'none'}",
           witness="id[T] used at (int32 x 9) and at (int32 x 8, string): the printer elides everything after the 8th element, both instances are named "
                   "`id__T_(int32,..,int32,...)` - mono and Go declare one function twice with different bodies")
    run.floor("child-carrying formers of Ty rendered by Ty::to_doc", len(kids), 6)


def run(run, model):
    run.try_rule(r07_25, model)
    # genericity predicates answer for every component of a type (shared with C03 R03.27)
    from rules import c03 as _c03q
    run.try_rule(_c03q.r03_27, model, "R07.24")
    # a bounded call `x.show()` at an instance is resolved through the impl's function name: two impls sharing one name make an instantiation run the other trait's code (shared with C17 R17.1)
    from rules import c17 as _c17n
    run.try_rule(_c17n.r17_1, model)
    run.try_rule(r07_1, model)
    run.try_rule(r07_2, model, None, "C07")
    run.try_rule(r07_7, model)
    run.try_rule(r07_8, model)
    run.try_rule(r07_9, model)
    run.try_rule(r07_3, model)
    run.try_rule(r07_4, model)
    run.try_rule(r07_5, model)
    run.try_rule(r07_6, model)
    run.try_rule(r07_11, model)
    run.try_rule(r07_12, model)
    run.try_rule(r07_13, model)
    run.try_rule(r07_15, model)
    run.try_rule(r07_16, model)
    run.try_rule(r07_17, model)
    run.try_rule(r07_18, model)
    run.try_rule(r07_19, model)
    run.try_rule(r07_20, model)
    run.try_rule(r07_21, model)
    run.try_rule(r07_22, model)
    run.try_rule(r07_23, model)
    from rules import c19 as _c19
    run.rule("R07.14", "two instances of a generic enum never share a Go type name for a variant (shared with C19 R19.8: the clash count ranges over the specialised enums that are emitted)")
    run.try_rule(_c19.r19_8, model)
    from rules import c03
    run.rule("R07.10", "no residue of type parameters: a type parameter that can never be inferred is rejected where the function is declared (shared with C03 R03.17)")
    run.try_rule(c03.r03_17, model)
    run.try_rule(c03.r03_17b, model)
    run.assume("after the typer no TVar remains and TParam occurs only in generic definitions (C03 clauses)")
