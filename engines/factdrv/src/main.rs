//! factdrv: rustc_private driver used as RUSTC_WORKSPACE_WRAPPER.  For every workspace
//! crate it compiles (exactly as `cargo check` would), it dumps resolved-program facts
//! from MIR as JSON lines: functions, resolved calls (with argument/return types),
//! assert terminators, and ADT definitions with field types.
#![feature(rustc_private)]
extern crate rustc_driver;
extern crate rustc_hir;
extern crate rustc_interface;
extern crate rustc_middle;
extern crate rustc_span;

use rustc_driver::{Callbacks, Compilation};
use rustc_hir::def::DefKind;
use rustc_interface::interface::Compiler;
use rustc_middle::mir::TerminatorKind;
use rustc_middle::ty::print::with_no_trimmed_paths;
use rustc_middle::ty::{self, Instance, TyCtxt, TypingEnv};
use rustc_span::Span;
use std::fmt::Write as _;

struct Facts;

fn esc(s: &str) -> String {
    let mut o = String::with_capacity(s.len() + 2);
    o.push('"');
    for c in s.chars() {
        match c {
            '"' => o.push_str("\\\""),
            '\\' => o.push_str("\\\\"),
            '\n' => o.push_str("\\n"),
            '\t' => o.push_str("\\t"),
            '\r' => o.push_str("\\r"),
            c if (c as u32) < 0x20 => {
                let _ = write!(o, "\\u{:04x}", c as u32);
            }
            c => o.push(c),
        }
    }
    o.push('"');
    o
}

fn loc(tcx: TyCtxt<'_>, span: Span) -> (String, usize, usize, bool, String) {
    let exp = span.from_expansion();
    let mac = if exp {
        let d = span.ctxt().outer_expn_data();
        format!("{}", d.kind.descr())
    } else {
        String::new()
    };
    let s = if exp { span.source_callsite() } else { span };
    let sm = tcx.sess.source_map();
    let lo = sm.lookup_char_pos(s.lo());
    let file = format!("{}", lo.file.name.prefer_local_unconditionally());
    (file, lo.line, lo.col.0, exp, mac)
}

impl Callbacks for Facts {
    fn after_analysis<'tcx>(&mut self, _c: &Compiler, tcx: TyCtxt<'tcx>) -> Compilation {
        let out_dir = match std::env::var("FACTDRV_OUT") {
            Ok(d) => d,
            Err(_) => return Compilation::Continue,
        };
        let krate = tcx.crate_name(rustc_hir::def_id::LOCAL_CRATE).to_string();
        let mut buf = String::new();
        with_no_trimmed_paths!({
            // ADTs
            for id in tcx.hir_crate_items(()).definitions() {
                let did = id.to_def_id();
                match tcx.def_kind(did) {
                    DefKind::Struct | DefKind::Enum => {
                        let adt = tcx.adt_def(did);
                        let _ = write!(
                            buf,
                            "{{\"t\":\"adt\",\"crate\":{},\"path\":{},\"kind\":{},\"variants\":[",
                            esc(&krate),
                            esc(&tcx.def_path_str(did)),
                            esc(if adt.is_enum() { "enum" } else { "struct" })
                        );
                        for (vi, v) in adt.variants().iter().enumerate() {
                            if vi > 0 {
                                buf.push(',');
                            }
                            let _ = write!(buf, "{{\"name\":{},\"fields\":[", esc(v.name.as_str()));
                            for (fi, f) in v.fields.iter().enumerate() {
                                if fi > 0 {
                                    buf.push(',');
                                }
                                let fty = tcx.type_of(f.did).instantiate_identity().skip_norm_wip();
                                let _ = write!(
                                    buf,
                                    "{{\"name\":{},\"ty\":{}}}",
                                    esc(f.name.as_str()),
                                    esc(&format!("{fty}"))
                                );
                            }
                            buf.push_str("]}");
                        }
                        buf.push_str("]}\n");
                    }
                    _ => {}
                }
            }
            for ldid in tcx.mir_keys(()) {
                let did = ldid.to_def_id();
                let kind = tcx.def_kind(did);
                if !matches!(
                    kind,
                    DefKind::Fn | DefKind::AssocFn | DefKind::Closure
                ) {
                    continue;
                }
                let path = tcx.def_path_str(did);
                let (file, line, _col, exp, _mac) = loc(tcx, tcx.def_span(did));
                let vis = if matches!(kind, DefKind::Fn | DefKind::AssocFn) {
                    if tcx.visibility(did).is_public() { "pub" } else { "priv" }
                } else {
                    "closure"
                };
                let _ = write!(
                    buf,
                    "{{\"t\":\"fn\",\"crate\":{},\"path\":{},\"file\":{},\"line\":{},\"vis\":{},\"exp\":{}}}\n",
                    esc(&krate), esc(&path), esc(&file), line, esc(vis), exp
                );
                let body = tcx.optimized_mir(did);
                let tenv = TypingEnv::post_analysis(tcx, did);
                for bb in body.basic_blocks.iter() {
                    let term = match &bb.terminator {
                        Some(t) => t,
                        None => continue,
                    };
                    let span = term.source_info.span;
                    match &term.kind {
                        TerminatorKind::Call { func, args, destination, .. } => {
                            let fty = func.ty(&body.local_decls, tcx);
                            let (callee, resolved, substs) = match fty.kind() {
                                ty::FnDef(cdid, cargs) => {
                                    match Instance::try_resolve(tcx, tenv, *cdid, cargs) {
                                        Ok(Some(inst)) => (
                                            tcx.def_path_str(inst.def_id()),
                                            true,
                                            format!("{:?}", inst.args),
                                        ),
                                        _ => (tcx.def_path_str(*cdid), false, format!("{:?}", cargs)),
                                    }
                                }
                                _ => (format!("<indirect:{fty}>"), false, String::new()),
                            };
                            let declared = match fty.kind() {
                                ty::FnDef(cdid, _) => tcx.def_path_str(*cdid),
                                _ => String::new(),
                            };
                            let (file, line, col, exp, mac) = loc(tcx, span);
                            let mut argtys = String::from("[");
                            for (i, a) in args.iter().enumerate() {
                                if i > 0 {
                                    argtys.push(',');
                                }
                                let t = a.node.ty(&body.local_decls, tcx);
                                argtys.push_str(&esc(&format!("{t}")));
                            }
                            argtys.push(']');
                            let rty = destination.ty(&body.local_decls, tcx).ty;
                            let _ = write!(
                                buf,
                                "{{\"t\":\"call\",\"crate\":{},\"caller\":{},\"callee\":{},\"declared\":{},\"resolved\":{},\"substs\":{},\"args\":{},\"ret\":{},\"file\":{},\"line\":{},\"col\":{},\"exp\":{},\"mac\":{}}}\n",
                                esc(&krate), esc(&path), esc(&callee), esc(&declared), resolved, esc(&substs), argtys,
                                esc(&format!("{rty}")), esc(&file), line, col, exp, esc(&mac)
                            );
                        }
                        TerminatorKind::Assert { msg, .. } => {
                            let (file, line, col, exp, mac) = loc(tcx, span);
                            let k = format!("{:?}", msg);
                            let k = k.split(|c: char| c == '(' || c == ' ' || c == '{').next().unwrap_or("").to_string();
                            let _ = write!(
                                buf,
                                "{{\"t\":\"assert\",\"crate\":{},\"caller\":{},\"kind\":{},\"file\":{},\"line\":{},\"col\":{},\"exp\":{},\"mac\":{}}}\n",
                                esc(&krate), esc(&path), esc(&k), esc(&file), line, col, exp, esc(&mac)
                            );
                        }
                        _ => {}
                    }
                }
            }
        });
        let p = format!("{}/{}-{}.jsonl", out_dir, krate, std::process::id());
        std::fs::write(&p, buf).expect("factdrv: cannot write facts");
        Compilation::Continue
    }
}

fn main() {
    let mut args: Vec<String> = std::env::args().collect();
    // RUSTC_WORKSPACE_WRAPPER passes the real rustc path as argv[1]
    if args.len() > 1 && (args[1].ends_with("rustc") || args[1].contains("/rustc")) {
        args.remove(1);
    }
    rustc_driver::run_compiler(&args, &mut Facts);
}
