//! synjson: parse Rust source files with syn and dump a compact JSON syntax tree
//! (with line/column spans) for the Python rule layer.  No analysis happens here.
//!
//! usage: synjson <root> <outdir> <relpath>...
use proc_macro2::{Span, TokenStream, TokenTree};
use quote::ToTokens;
use serde_json::{json, Map, Value};
use syn::parse::{Parse, ParseStream, Parser};
use syn::punctuated::Punctuated;
use syn::spanned::Spanned;
use syn::*;

fn sp(s: Span) -> Value {
    let a = s.start();
    let b = s.end();
    json!([a.line, a.column, b.line, b.column])
}

fn node(k: &str, s: Span) -> Map<String, Value> {
    let mut m = Map::new();
    m.insert("k".into(), Value::String(k.into()));
    m.insert("sp".into(), sp(s));
    m
}

fn is_word(c: char) -> bool {
    c.is_alphanumeric() || c == '_' || c == '\'' || c == '"'
}

/// Token stream -> string with spaces only where two word-like tokens meet.
fn toks(ts: TokenStream) -> String {
    let mut out = String::new();
    fn go(ts: TokenStream, out: &mut String) {
        for t in ts {
            match t {
                TokenTree::Group(g) => {
                    let (o, c) = match g.delimiter() {
                        proc_macro2::Delimiter::Parenthesis => ("(", ")"),
                        proc_macro2::Delimiter::Brace => ("{", "}"),
                        proc_macro2::Delimiter::Bracket => ("[", "]"),
                        proc_macro2::Delimiter::None => ("", ""),
                    };
                    out.push_str(o);
                    go(g.stream(), out);
                    out.push_str(c);
                }
                other => {
                    let s = other.to_string();
                    if let (Some(p), Some(n)) = (out.chars().last(), s.chars().next()) {
                        if is_word(p) && is_word(n) {
                            out.push(' ');
                        }
                    }
                    out.push_str(&s);
                }
            }
        }
    }
    go(ts, &mut out);
    out
}

fn ty_s(t: &Type) -> Value {
    Value::String(toks(t.to_token_stream()))
}

fn path_segs(p: &Path) -> Value {
    Value::Array(
        p.segments
            .iter()
            .map(|s| Value::String(s.ident.to_string()))
            .collect(),
    )
}

fn attrs(a: &[Attribute]) -> Value {
    Value::Array(
        a.iter()
            .map(|at| {
                let name = toks(at.path().to_token_stream());
                let args = match &at.meta {
                    Meta::Path(_) => String::new(),
                    Meta::List(l) => toks(l.tokens.clone()),
                    Meta::NameValue(nv) => toks(nv.value.to_token_stream()),
                };
                json!({"name": name, "args": args, "sp": sp(at.span())})
            })
            .collect(),
    )
}

fn vis_s(v: &Visibility) -> Value {
    Value::String(toks(v.to_token_stream()))
}

fn lit(l: &Lit) -> Value {
    let (kind, val) = match l {
        Lit::Str(s) => ("Str", s.value()),
        Lit::ByteStr(_) => ("ByteStr", toks(l.to_token_stream())),
        Lit::CStr(_) => ("CStr", toks(l.to_token_stream())),
        Lit::Byte(b) => ("Byte", b.value().to_string()),
        Lit::Char(c) => ("Char", c.value().to_string()),
        Lit::Int(i) => ("Int", i.to_string()),
        Lit::Float(f) => ("Float", f.to_string()),
        Lit::Bool(b) => ("Bool", b.value.to_string()),
        Lit::Verbatim(v) => ("Verbatim", v.to_string()),
        _ => ("Other", toks(l.to_token_stream())),
    };
    let mut m = node("Lit", l.span());
    m.insert("lit".into(), kind.into());
    m.insert("value".into(), val.into());
    Value::Object(m)
}

struct MatchesArgs {
    expr: Expr,
    pat: Pat,
    guard: Option<Expr>,
}
impl Parse for MatchesArgs {
    fn parse(input: ParseStream) -> Result<Self> {
        let expr: Expr = input.parse()?;
        input.parse::<Token![,]>()?;
        let pat = Pat::parse_multi_with_leading_vert(input)?;
        let guard = if input.peek(Token![if]) {
            input.parse::<Token![if]>()?;
            Some(input.parse::<Expr>()?)
        } else {
            None
        };
        if input.peek(Token![,]) {
            input.parse::<Token![,]>()?;
        }
        Ok(MatchesArgs { expr, pat, guard })
    }
}

fn mac(m: &Macro, s: Span) -> Value {
    let mut n = node("Macro", s);
    let name = m
        .path
        .segments
        .last()
        .map(|x| x.ident.to_string())
        .unwrap_or_default();
    n.insert("name".into(), name.clone().into());
    n.insert("tokens".into(), toks(m.tokens.clone()).into());
    if name == "matches" {
        if let Ok(a) = syn::parse2::<MatchesArgs>(m.tokens.clone()) {
            n.insert("args".into(), Value::Array(vec![ex(&a.expr)]));
            n.insert("pat".into(), pat(&a.pat));
            n.insert(
                "guard".into(),
                a.guard.as_ref().map(ex).unwrap_or(Value::Null),
            );
            return Value::Object(n);
        }
    }
    let parser = Punctuated::<Expr, Token![,]>::parse_terminated;
    if let Ok(p) = parser.parse2(m.tokens.clone()) {
        n.insert("args".into(), Value::Array(p.iter().map(ex).collect()));
    } else {
        // vec![x; n]
        let rep = |input: ParseStream| -> Result<(Expr, Expr)> {
            let a: Expr = input.parse()?;
            input.parse::<Token![;]>()?;
            let b: Expr = input.parse()?;
            Ok((a, b))
        };
        if let Ok((a, b)) = rep.parse2(m.tokens.clone()) {
            n.insert("args".into(), Value::Array(vec![ex(&a), ex(&b)]));
            n.insert("repeat".into(), true.into());
        } else {
            n.insert("args".into(), Value::Null);
        }
    }
    Value::Object(n)
}

fn block(b: &Block) -> Value {
    let mut n = node("Block", b.span());
    n.insert(
        "stmts".into(),
        Value::Array(b.stmts.iter().map(stmt).collect()),
    );
    Value::Object(n)
}

fn stmt(s: &Stmt) -> Value {
    match s {
        Stmt::Local(l) => {
            let mut n = node("Local", l.span());
            let (p, t) = match &l.pat {
                Pat::Type(pt) => (pat(&pt.pat), ty_s(&pt.ty)),
                p => (pat(p), Value::Null),
            };
            n.insert("pat".into(), p);
            n.insert("ty".into(), t);
            match &l.init {
                Some(i) => {
                    n.insert("init".into(), ex(&i.expr));
                    n.insert(
                        "else".into(),
                        i.diverge.as_ref().map(|(_, e)| ex(e)).unwrap_or(Value::Null),
                    );
                }
                None => {
                    n.insert("init".into(), Value::Null);
                    n.insert("else".into(), Value::Null);
                }
            }
            Value::Object(n)
        }
        Stmt::Item(i) => {
            let mut n = node("ItemStmt", i.span());
            n.insert("item".into(), item(i));
            Value::Object(n)
        }
        Stmt::Expr(e, semi) => {
            let mut n = node("ExprStmt", e.span());
            n.insert("expr".into(), ex(e));
            n.insert("semi".into(), semi.is_some().into());
            Value::Object(n)
        }
        Stmt::Macro(m) => {
            let mut n = node("ExprStmt", m.span());
            n.insert("expr".into(), mac(&m.mac, m.span()));
            n.insert("semi".into(), m.semi_token.is_some().into());
            Value::Object(n)
        }
    }
}

fn label(l: &Option<Label>) -> Value {
    l.as_ref()
        .map(|l| Value::String(l.name.ident.to_string()))
        .unwrap_or(Value::Null)
}

fn member(m: &Member) -> String {
    match m {
        Member::Named(i) => i.to_string(),
        Member::Unnamed(i) => i.index.to_string(),
    }
}

fn opt_ex(e: &Option<Box<Expr>>) -> Value {
    e.as_ref().map(|e| ex(e)).unwrap_or(Value::Null)
}

fn ex(e: &Expr) -> Value {
    let s = e.span();
    let mut n;
    match e {
        Expr::Array(a) => {
            n = node("Array", s);
            n.insert("elems".into(), Value::Array(a.elems.iter().map(ex).collect()));
        }
        Expr::Assign(a) => {
            n = node("Assign", s);
            n.insert("left".into(), ex(&a.left));
            n.insert("right".into(), ex(&a.right));
        }
        Expr::Binary(b) => {
            n = node("Binary", s);
            n.insert("op".into(), toks(b.op.to_token_stream()).into());
            n.insert("left".into(), ex(&b.left));
            n.insert("right".into(), ex(&b.right));
        }
        Expr::Block(b) => {
            let mut v = block(&b.block);
            if let Value::Object(m) = &mut v {
                m.insert("label".into(), label(&b.label));
            }
            return v;
        }
        Expr::Break(b) => {
            n = node("Break", s);
            n.insert(
                "label".into(),
                b.label
                    .as_ref()
                    .map(|l| Value::String(l.ident.to_string()))
                    .unwrap_or(Value::Null),
            );
            n.insert("expr".into(), opt_ex(&b.expr));
        }
        Expr::Call(c) => {
            n = node("Call", s);
            n.insert("func".into(), ex(&c.func));
            n.insert("args".into(), Value::Array(c.args.iter().map(ex).collect()));
        }
        Expr::Cast(c) => {
            n = node("Cast", s);
            n.insert("expr".into(), ex(&c.expr));
            n.insert("ty".into(), ty_s(&c.ty));
        }
        Expr::Closure(c) => {
            n = node("Closure", s);
            n.insert("inputs".into(), Value::Array(c.inputs.iter().map(pat).collect()));
            n.insert("body".into(), ex(&c.body));
            n.insert("move".into(), c.capture.is_some().into());
        }
        Expr::Continue(_) => {
            n = node("Continue", s);
        }
        Expr::Field(f) => {
            n = node("Field", s);
            n.insert("base".into(), ex(&f.base));
            n.insert("member".into(), member(&f.member).into());
        }
        Expr::ForLoop(f) => {
            n = node("For", s);
            n.insert("pat".into(), pat(&f.pat));
            n.insert("iter".into(), ex(&f.expr));
            n.insert("body".into(), block(&f.body));
            n.insert("label".into(), label(&f.label));
        }
        Expr::Group(g) => return ex(&g.expr),
        Expr::Paren(p) => return ex(&p.expr),
        Expr::If(i) => {
            n = node("If", s);
            n.insert("cond".into(), ex(&i.cond));
            n.insert("then".into(), block(&i.then_branch));
            n.insert(
                "else".into(),
                i.else_branch.as_ref().map(|(_, e)| ex(e)).unwrap_or(Value::Null),
            );
        }
        Expr::Index(i) => {
            n = node("Index", s);
            n.insert("base".into(), ex(&i.expr));
            n.insert("index".into(), ex(&i.index));
        }
        Expr::Let(l) => {
            n = node("Let", s);
            n.insert("pat".into(), pat(&l.pat));
            n.insert("expr".into(), ex(&l.expr));
        }
        Expr::Lit(l) => return lit(&l.lit),
        Expr::Loop(l) => {
            n = node("Loop", s);
            n.insert("body".into(), block(&l.body));
            n.insert("label".into(), label(&l.label));
        }
        Expr::Macro(m) => return mac(&m.mac, s),
        Expr::Match(m) => {
            n = node("Match", s);
            n.insert("scrut".into(), ex(&m.expr));
            n.insert(
                "arms".into(),
                Value::Array(
                    m.arms
                        .iter()
                        .map(|a| {
                            let mut an = node("Arm", a.span());
                            an.insert("pat".into(), pat(&a.pat));
                            an.insert(
                                "guard".into(),
                                a.guard.as_ref().map(|(_, g)| ex(g)).unwrap_or(Value::Null),
                            );
                            an.insert("body".into(), ex(&a.body));
                            Value::Object(an)
                        })
                        .collect(),
                ),
            );
        }
        Expr::MethodCall(m) => {
            n = node("MethodCall", s);
            n.insert("recv".into(), ex(&m.receiver));
            n.insert("method".into(), m.method.to_string().into());
            n.insert("msp".into(), sp(m.method.span()));
            n.insert(
                "turbofish".into(),
                m.turbofish
                    .as_ref()
                    .map(|t| Value::String(toks(t.to_token_stream())))
                    .unwrap_or(Value::Null),
            );
            n.insert("args".into(), Value::Array(m.args.iter().map(ex).collect()));
        }
        Expr::Path(p) => {
            n = node("Path", s);
            n.insert("segs".into(), path_segs(&p.path));
            n.insert("full".into(), toks(p.to_token_stream()).into());
        }
        Expr::Range(r) => {
            n = node("Range", s);
            n.insert("start".into(), opt_ex(&r.start));
            n.insert("end".into(), opt_ex(&r.end));
            n.insert("limits".into(), toks(r.limits.to_token_stream()).into());
        }
        Expr::Reference(r) => {
            n = node("Ref", s);
            n.insert("mut".into(), r.mutability.is_some().into());
            n.insert("expr".into(), ex(&r.expr));
        }
        Expr::Repeat(r) => {
            n = node("Repeat", s);
            n.insert("expr".into(), ex(&r.expr));
            n.insert("len".into(), ex(&r.len));
        }
        Expr::Return(r) => {
            n = node("Return", s);
            n.insert("expr".into(), opt_ex(&r.expr));
        }
        Expr::Struct(st) => {
            n = node("Struct", s);
            n.insert("segs".into(), path_segs(&st.path));
            n.insert(
                "fields".into(),
                Value::Array(
                    st.fields
                        .iter()
                        .map(|f| {
                            json!({"name": member(&f.member), "expr": ex(&f.expr),
                                   "shorthand": f.colon_token.is_none(), "sp": sp(f.span())})
                        })
                        .collect(),
                ),
            );
            n.insert("rest".into(), opt_ex(&st.rest));
        }
        Expr::Try(t) => {
            n = node("Try", s);
            n.insert("expr".into(), ex(&t.expr));
        }
        Expr::Tuple(t) => {
            n = node("Tuple", s);
            n.insert("elems".into(), Value::Array(t.elems.iter().map(ex).collect()));
        }
        Expr::Unary(u) => {
            n = node("Unary", s);
            n.insert("op".into(), toks(u.op.to_token_stream()).into());
            n.insert("expr".into(), ex(&u.expr));
        }
        Expr::Unsafe(u) => {
            n = node("Unsafe", s);
            n.insert("body".into(), block(&u.block));
        }
        Expr::While(w) => {
            n = node("While", s);
            n.insert("cond".into(), ex(&w.cond));
            n.insert("body".into(), block(&w.body));
            n.insert("label".into(), label(&w.label));
        }
        other => {
            n = node("Other", s);
            n.insert("tokens".into(), toks(other.to_token_stream()).into());
        }
    }
    Value::Object(n)
}

fn pat(p: &Pat) -> Value {
    let s = p.span();
    let mut n;
    match p {
        Pat::Ident(i) => {
            n = node("PIdent", s);
            n.insert("name".into(), i.ident.to_string().into());
            n.insert("byref".into(), i.by_ref.is_some().into());
            n.insert("mut".into(), i.mutability.is_some().into());
            n.insert(
                "sub".into(),
                i.subpat.as_ref().map(|(_, p)| pat(p)).unwrap_or(Value::Null),
            );
        }
        Pat::Wild(_) => n = node("PWild", s),
        Pat::Path(pp) => {
            n = node("PPath", s);
            n.insert("segs".into(), path_segs(&pp.path));
        }
        Pat::TupleStruct(t) => {
            n = node("PTupleStruct", s);
            n.insert("segs".into(), path_segs(&t.path));
            n.insert("elems".into(), Value::Array(t.elems.iter().map(pat).collect()));
        }
        Pat::Struct(st) => {
            n = node("PStruct", s);
            n.insert("segs".into(), path_segs(&st.path));
            n.insert(
                "fields".into(),
                Value::Array(
                    st.fields
                        .iter()
                        .map(|f| {
                            json!({"name": member(&f.member), "pat": pat(&f.pat),
                                   "shorthand": f.colon_token.is_none()})
                        })
                        .collect(),
                ),
            );
            n.insert("rest".into(), st.rest.is_some().into());
        }
        Pat::Tuple(t) => {
            n = node("PTuple", s);
            n.insert("elems".into(), Value::Array(t.elems.iter().map(pat).collect()));
        }
        Pat::Or(o) => {
            n = node("POr", s);
            n.insert("cases".into(), Value::Array(o.cases.iter().map(pat).collect()));
        }
        Pat::Lit(l) => {
            n = node("PLit", s);
            n.insert("expr".into(), lit(&l.lit));
        }
        Pat::Range(r) => {
            n = node("PRange", s);
            n.insert("tokens".into(), toks(r.to_token_stream()).into());
        }
        Pat::Reference(r) => {
            n = node("PRef", s);
            n.insert("pat".into(), pat(&r.pat));
        }
        Pat::Rest(_) => n = node("PRest", s),
        Pat::Slice(sl) => {
            n = node("PSlice", s);
            n.insert("elems".into(), Value::Array(sl.elems.iter().map(pat).collect()));
        }
        Pat::Type(t) => {
            n = node("PType", s);
            n.insert("pat".into(), pat(&t.pat));
            n.insert("ty".into(), ty_s(&t.ty));
        }
        Pat::Paren(pp) => return pat(&pp.pat),
        other => {
            n = node("POther", s);
            n.insert("tokens".into(), toks(other.to_token_stream()).into());
        }
    }
    Value::Object(n)
}

fn fields(f: &Fields) -> (Value, &'static str) {
    match f {
        Fields::Named(n) => (
            Value::Array(
                n.named
                    .iter()
                    .map(|f| {
                        json!({"name": f.ident.as_ref().map(|i| i.to_string()),
                               "ty": ty_s(&f.ty), "attrs": attrs(&f.attrs), "vis": vis_s(&f.vis)})
                    })
                    .collect(),
            ),
            "struct",
        ),
        Fields::Unnamed(u) => (
            Value::Array(
                u.unnamed
                    .iter()
                    .map(|f| json!({"name": Value::Null, "ty": ty_s(&f.ty), "attrs": attrs(&f.attrs), "vis": vis_s(&f.vis)}))
                    .collect(),
            ),
            "tuple",
        ),
        Fields::Unit => (Value::Array(vec![]), "unit"),
    }
}

fn sig(n: &mut Map<String, Value>, s: &Signature) {
    n.insert("name".into(), s.ident.to_string().into());
    n.insert("nsp".into(), sp(s.ident.span()));
    n.insert("generics".into(), toks(s.generics.to_token_stream()).into());
    n.insert(
        "where".into(),
        s.generics
            .where_clause
            .as_ref()
            .map(|w| Value::String(toks(w.to_token_stream())))
            .unwrap_or(Value::Null),
    );
    n.insert(
        "params".into(),
        Value::Array(
            s.inputs
                .iter()
                .map(|a| match a {
                    FnArg::Receiver(r) => {
                        json!({"self": true, "pat": {"k":"PIdent","name":"self","sp":sp(r.span()),"byref":false,"mut":r.mutability.is_some(),"sub":null},
                               "ty": toks(r.to_token_stream())})
                    }
                    FnArg::Typed(t) => json!({"self": false, "pat": pat(&t.pat), "ty": ty_s(&t.ty)}),
                })
                .collect(),
        ),
    );
    n.insert(
        "ret".into(),
        match &s.output {
            ReturnType::Default => Value::Null,
            ReturnType::Type(_, t) => ty_s(t),
        },
    );
}

fn item(i: &Item) -> Value {
    let s = i.span();
    let mut n;
    match i {
        Item::Fn(f) => {
            n = node("Fn", s);
            n.insert("attrs".into(), attrs(&f.attrs));
            n.insert("vis".into(), vis_s(&f.vis));
            sig(&mut n, &f.sig);
            n.insert("body".into(), block(&f.block));
        }
        Item::Impl(im) => {
            n = node("Impl", s);
            n.insert("attrs".into(), attrs(&im.attrs));
            n.insert("generics".into(), toks(im.generics.to_token_stream()).into());
            n.insert("self_ty".into(), ty_s(&im.self_ty));
            n.insert(
                "trait".into(),
                im.trait_
                    .as_ref()
                    .map(|(_, p, _)| Value::String(toks(p.to_token_stream())))
                    .unwrap_or(Value::Null),
            );
            n.insert(
                "items".into(),
                Value::Array(
                    im.items
                        .iter()
                        .map(|ii| match ii {
                            ImplItem::Fn(f) => {
                                let mut m = node("Fn", f.span());
                                m.insert("attrs".into(), attrs(&f.attrs));
                                m.insert("vis".into(), vis_s(&f.vis));
                                sig(&mut m, &f.sig);
                                m.insert("body".into(), block(&f.block));
                                Value::Object(m)
                            }
                            ImplItem::Const(c) => {
                                let mut m = node("Const", c.span());
                                m.insert("name".into(), c.ident.to_string().into());
                                m.insert("ty".into(), ty_s(&c.ty));
                                m.insert("expr".into(), ex(&c.expr));
                                Value::Object(m)
                            }
                            ImplItem::Type(t) => {
                                let mut m = node("TypeAlias", t.span());
                                m.insert("name".into(), t.ident.to_string().into());
                                m.insert("ty".into(), ty_s(&t.ty));
                                Value::Object(m)
                            }
                            other => {
                                let mut m = node("Other", other.span());
                                m.insert("tokens".into(), toks(other.to_token_stream()).into());
                                Value::Object(m)
                            }
                        })
                        .collect(),
                ),
            );
        }
        Item::Enum(e) => {
            n = node("Enum", s);
            n.insert("attrs".into(), attrs(&e.attrs));
            n.insert("vis".into(), vis_s(&e.vis));
            n.insert("name".into(), e.ident.to_string().into());
            n.insert("generics".into(), toks(e.generics.to_token_stream()).into());
            n.insert(
                "variants".into(),
                Value::Array(
                    e.variants
                        .iter()
                        .map(|v| {
                            let (f, style) = fields(&v.fields);
                            json!({"name": v.ident.to_string(), "attrs": attrs(&v.attrs), "fields": f,
                                   "style": style, "sp": sp(v.span()),
                                   "discr": v.discriminant.as_ref().map(|(_, e)| toks(e.to_token_stream()))})
                        })
                        .collect(),
                ),
            );
        }
        Item::Struct(st) => {
            n = node("StructDef", s);
            n.insert("attrs".into(), attrs(&st.attrs));
            n.insert("vis".into(), vis_s(&st.vis));
            n.insert("name".into(), st.ident.to_string().into());
            n.insert("generics".into(), toks(st.generics.to_token_stream()).into());
            let (f, style) = fields(&st.fields);
            n.insert("fields".into(), f);
            n.insert("style".into(), style.into());
        }
        Item::Mod(m) => {
            n = node("Mod", s);
            n.insert("attrs".into(), attrs(&m.attrs));
            n.insert("name".into(), m.ident.to_string().into());
            n.insert(
                "items".into(),
                m.content
                    .as_ref()
                    .map(|(_, its)| Value::Array(its.iter().map(item).collect()))
                    .unwrap_or(Value::Null),
            );
        }
        Item::Use(u) => {
            n = node("Use", s);
            n.insert("vis".into(), vis_s(&u.vis));
            let mut out = vec![];
            fn walk(t: &UseTree, prefix: &mut Vec<String>, out: &mut Vec<Value>) {
                match t {
                    UseTree::Path(p) => {
                        prefix.push(p.ident.to_string());
                        walk(&p.tree, prefix, out);
                        prefix.pop();
                    }
                    UseTree::Name(nm) => {
                        let mut p = prefix.clone();
                        p.push(nm.ident.to_string());
                        out.push(json!({"path": p, "alias": Value::Null, "glob": false}));
                    }
                    UseTree::Rename(r) => {
                        let mut p = prefix.clone();
                        p.push(r.ident.to_string());
                        out.push(json!({"path": p, "alias": r.rename.to_string(), "glob": false}));
                    }
                    UseTree::Glob(_) => {
                        out.push(json!({"path": prefix.clone(), "alias": Value::Null, "glob": true}));
                    }
                    UseTree::Group(g) => {
                        for t in &g.items {
                            walk(t, prefix, out);
                        }
                    }
                }
            }
            walk(&u.tree, &mut vec![], &mut out);
            n.insert("paths".into(), Value::Array(out));
        }
        Item::Const(c) => {
            n = node("Const", s);
            n.insert("attrs".into(), attrs(&c.attrs));
            n.insert("vis".into(), vis_s(&c.vis));
            n.insert("name".into(), c.ident.to_string().into());
            n.insert("ty".into(), ty_s(&c.ty));
            n.insert("expr".into(), ex(&c.expr));
        }
        Item::Static(c) => {
            n = node("Const", s);
            n.insert("attrs".into(), attrs(&c.attrs));
            n.insert("vis".into(), vis_s(&c.vis));
            n.insert("name".into(), c.ident.to_string().into());
            n.insert("ty".into(), ty_s(&c.ty));
            n.insert("expr".into(), ex(&c.expr));
            n.insert("static".into(), true.into());
        }
        Item::Type(t) => {
            n = node("TypeAlias", s);
            n.insert("vis".into(), vis_s(&t.vis));
            n.insert("name".into(), t.ident.to_string().into());
            n.insert("ty".into(), ty_s(&t.ty));
        }
        Item::Trait(t) => {
            n = node("Trait", s);
            n.insert("attrs".into(), attrs(&t.attrs));
            n.insert("name".into(), t.ident.to_string().into());
            n.insert(
                "items".into(),
                Value::Array(
                    t.items
                        .iter()
                        .map(|ti| match ti {
                            TraitItem::Fn(f) => {
                                let mut m = node("Fn", f.span());
                                m.insert("attrs".into(), attrs(&f.attrs));
                                m.insert("vis".into(), "".into());
                                sig(&mut m, &f.sig);
                                m.insert(
                                    "body".into(),
                                    f.default.as_ref().map(block).unwrap_or(Value::Null),
                                );
                                Value::Object(m)
                            }
                            other => {
                                let mut m = node("Other", other.span());
                                m.insert("tokens".into(), toks(other.to_token_stream()).into());
                                Value::Object(m)
                            }
                        })
                        .collect(),
                ),
            );
        }
        Item::Macro(m) => {
            n = node("MacroItem", s);
            n.insert(
                "name".into(),
                m.ident
                    .as_ref()
                    .map(|i| Value::String(i.to_string()))
                    .unwrap_or(Value::Null),
            );
            n.insert("macro".into(), toks(m.mac.path.to_token_stream()).into());
            n.insert("tokens".into(), toks(m.mac.tokens.clone()).into());
        }
        other => {
            n = node("Other", s);
            n.insert("tokens".into(), toks(other.to_token_stream()).into());
        }
    }
    Value::Object(n)
}

fn main() {
    let args: Vec<String> = std::env::args().collect();
    if args.len() < 4 {
        eprintln!("usage: synjson <root> <outdir> <relpath>...");
        std::process::exit(2);
    }
    let root = std::path::Path::new(&args[1]);
    let out = std::path::Path::new(&args[2]);
    let mut failed = 0;
    for rel in &args[3..] {
        let src = match std::fs::read_to_string(root.join(rel)) {
            Ok(s) => s,
            Err(e) => {
                eprintln!("synjson: cannot read {rel}: {e}");
                failed += 1;
                continue;
            }
        };
        let file = match syn::parse_file(&src) {
            Ok(f) => f,
            Err(e) => {
                eprintln!("synjson: parse error in {rel}: {e}");
                failed += 1;
                continue;
            }
        };
        let v = json!({
            "file": rel,
            "attrs": attrs(&file.attrs),
            "items": Value::Array(file.items.iter().map(item).collect()),
        });
        let dst = out.join(format!("{rel}.json"));
        if let Some(p) = dst.parent() {
            std::fs::create_dir_all(p).unwrap();
        }
        std::fs::write(&dst, serde_json::to_vec(&v).unwrap()).unwrap();
    }
    if failed > 0 {
        std::process::exit(1);
    }
}
