#!/bin/sh
# Run from the repository root. Exits 0 when the defect is PRESENT.
# In generic code with a bound `T: Show`, `Show::show(e)` is rejected whenever the type of the
# receiver expression `e` becomes `T` only through unification (field of W[T], call result, if result):
#   "No instance found for trait Show<TParam(T)> for operator show"
HERE=$(cd "$(dirname "$0")" && pwd)
BIN=${GOML:-./target/debug/compiler}
[ -x "$BIN" ] || cargo build --offline -p compiler >/dev/null 2>&1 || exit 2
out=$("$BIN" run --dump-go "$HERE/prog/main.gom" 2>&1)
ctl=$("$BIN" run --dump-go "$HERE/control/main.gom" 2>&1)
echo "$out" | grep -v '^$' | head -20
# control: the same functions with the receiver annotated `: T` (or syntactically a parameter), and the same
# expressions at a concrete type, are accepted and dispatch to the int32 impl
echo "$ctl" | grep -q '^== Go ==' || { echo "control rejected: unexpected"; exit 2; }
echo "$ctl" | grep -q '^error' && { echo "control rejected: unexpected"; exit 2; }
n=$(echo "$out" | grep -c 'No instance found for trait Show<TParam(T)> for operator show')
[ "$n" -ge 3 ] || { echo "defect absent (got $n such diagnostics)"; exit 1; }
echo "DEFECT PRESENT: $n bounded trait calls rejected with 'No instance found for trait Show<TParam(T)>'"
exit 0
