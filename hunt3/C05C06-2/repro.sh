#!/bin/sh
# Run from the root of the goml repository.
# Exit 0  : defect present - variables bound by a constructor pattern of a generic
#           enum/struct have no usable type inside their arm (method call, tuple
#           projection, bounded trait call and literal sub-pattern are all rejected),
#           while the same bodies are accepted when the variable is bound by a tuple
#           pattern or by a constructor pattern of a non-generic enum/struct.
# Exit !=0: defect absent.
HERE="$(cd "$(dirname "$0")" && pwd)"
cargo build --offline -q -p compiler >/dev/null 2>&1 || { echo "build failed"; exit 2; }
BIN=./target/debug/compiler

OUT=$($BIN run --dump-go "$HERE/prog/main.gom" 2>&1)
CTL=$($BIN run --dump-go "$HERE/control/main.gom" 2>&1)

echo "--- prog (generic O[T], W[T]) ---"
echo "$OUT" | grep '^error'
echo "--- control (tuple patterns / non-generic enums) ---"
echo "$CTL" | grep '^error'

echo "$CTL" | grep -q '^== Go ==' || { echo "control does not compile: environment problem"; exit 2; }

n=0
echo "$OUT" | grep -q 'Method get not found'                     && n=$((n+1))
echo "$OUT" | grep -q 'Cannot project field 0 on non-tuple type TVar' && n=$((n+1))
echo "$OUT" | grep -q 'No instance found for trait Area<TParam(T)>'   && n=$((n+1))
if [ "$n" -ge 1 ] && ! echo "$OUT" | grep -q '^== Go =='; then
    echo "DEFECT PRESENT ($n of 3 characteristic diagnostics)"
    exit 0
fi
echo "defect absent"
exit 1
