#!/bin/sh
# Run from the repository root. Exits 0 when the defect is present.
HERE=$(cd "$(dirname "$0")" && pwd)
BIN=./target/debug/compiler
[ -x "$BIN" ] || cargo build --offline -q -p compiler || exit 2
n=0
OUT=$("$BIN" run --dump-go "$HERE/variant/main.gom" 2>&1)
if echo "$OUT" | grep -q "^package main" && [ "$(echo "$OUT" | grep -c '^type A struct')" -eq 2 ] \
   && [ "$(echo "$OUT" | grep -c '^    case A:')" -eq 2 ]; then
  echo "variant: accepted; Go declares 'type A struct' twice and has 'case A:' twice"; n=$((n+1))
fi
OUT=$("$BIN" run --dump-go "$HERE/field/main.gom" 2>&1)
if echo "$OUT" | grep -q "^package main" && echo "$OUT" | grep -q "^    x int32$" && echo "$OUT" | grep -q "^    x string$"; then
  echo "field: accepted; Go struct P has two fields named x"; n=$((n+1))
fi
OUT=$("$BIN" run --dump-mono "$HERE/method/main.gom" 2>&1)
if echo "$OUT" | grep -q "== Mono ==" && ! echo "$OUT" | grep -q "error (typer)"; then
  echo "method: accepted; the first declaration of T::f is silently dropped"; n=$((n+1))
fi
[ "$n" -eq 3 ] || { echo "defect absent ($n/3)"; exit 1; }
echo "DEFECT PRESENT: duplicate members of one enum / struct / trait are not diagnosed"
exit 0
