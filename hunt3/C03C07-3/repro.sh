#!/bin/sh
# Run from the repository root. Exits 0 when the defect is present.
HERE=$(cd "$(dirname "$0")" && pwd)
BIN=./target/debug/compiler
[ -x "$BIN" ] || cargo build --offline -q -p compiler || exit 2
OUT=$("$BIN" run --dump-mono --dump-go "$HERE/prog/main.gom" 2>&1)
echo "$OUT" | grep -n "Self"
echo "$OUT" | grep -q "error (typer)" && { echo "program rejected: defect absent"; exit 1; }
echo "$OUT" | grep -q "^package main" || { echo "no Go emitted"; exit 1; }
echo "$OUT" | grep -q "fn count(v/0: Vec\[Self\]) -> int32" || { echo "no Self in Mono"; exit 1; }
echo "$OUT" | grep -q "func count(v__0 \[\]Self) int32" || { echo "no Self in Go"; exit 1; }
echo "$OUT" | grep -Eq "^type Self( |$)" && { echo "Self is declared"; exit 1; }
echo "--- (secondary) Self inside an impl body:"
"$BIN" run "$HERE/body/main.gom" 2>&1 | head -3
echo "DEFECT PRESENT: the unknown type Self is accepted and reaches Mono and Go"
exit 0
