#!/bin/sh
# Run from the repository root. Exits 0 when the defect is PRESENT.
# enum E has a variant `wrap` and an inherent method `wrap`: `e.wrap()` calls the method,
# `E::wrap(e)` (the T::m(x) form) silently builds the variant instead. No diagnostic.
HERE=$(cd "$(dirname "$0")" && pwd)
BIN=${GOML:-./target/debug/compiler}
[ -x "$BIN" ] || cargo build --offline -p compiler >/dev/null 2>&1 || exit 2
out=$("$BIN" run --dump-go "$HERE/prog/main.gom" 2>&1)
echo "$out" | sed -n '/^func main0/,/^}/p'
echo "$out" | grep -q '^== Go ==' || { echo "program was rejected: defect absent"; exit 1; }
echo "$out" | grep -q '^error' && { echo "diagnostic reported: defect absent"; exit 1; }
echo "$out" | grep -q 'var a__[0-9]* E = _goml_inherent_E_E_wrap(e__' || exit 1
# b is built with the variant constructor, not by calling the method
echo "$out" | grep -A1 'var b__[0-9]* E = wrap{' | grep -q '_0: e__' || exit 1
echo "DEFECT PRESENT: e.wrap() calls the method (depth 0), E::wrap(e) builds the variant (depth 1): prints '0 1'"
exit 0
