#!/bin/sh
# Run from the root of the goml repository (the compiler is built there).
# Exit 0  : defect present (a well-formed program that destructures a struct whose
#           name is also the name of an enum variant is rejected by the type checker,
#           while the same program with the variant renamed is accepted).
# Exit !=0: defect absent.
HERE="$(cd "$(dirname "$0")" && pwd)"
cargo build --offline -q -p compiler >/dev/null 2>&1 || { echo "build failed"; exit 2; }
BIN=./target/debug/compiler

OUT=$($BIN run --dump-go "$HERE/prog/main.gom" 2>&1)
CTL=$($BIN run --dump-go "$HERE/control/main.gom" 2>&1)

echo "--- prog (struct Circle + variant Shape::Circle) ---"
echo "$OUT" | grep '^error' | head -10
echo "--- control (variant renamed to Round) ---"
echo "$CTL" | grep '^error' | head -10

# control must type-check and reach the Go stage
echo "$CTL" | grep -q '^== Go ==' || { echo "control does not compile: environment problem"; exit 2; }

if echo "$OUT" | grep -q 'Constructor Circle refers to an enum, but a struct literal was used' \
   && echo "$OUT" | grep -q 'Types are not equal: TEnum(Shape) and TStruct(Circle)'; then
    echo "DEFECT PRESENT: struct literal / struct pattern 'Circle { .. }' was resolved to the enum variant Shape::Circle"
    exit 0
fi
echo "defect absent"
exit 1
