// Simulates what webapp/src/App.tsx does: Monaco reports `position.column` in UTF-16 code
// units; App.tsx passes `column - 1` straight to the wasm-app entry points, which hand it to
// compiler::query as a UTF-8 byte column.
use std::path::Path;

use compiler::query::{dot_completions, hover_type};

/// 0-based (line, column) the way Monaco counts them: UTF-16 code units.
fn monaco_pos(src: &str, byte_off: usize) -> (u32, u32) {
    let before = &src[..byte_off];
    let line = before.matches('\n').count() as u32;
    let line_start = before.rfind('\n').map(|i| i + 1).unwrap_or(0);
    let col = src[line_start..byte_off].encode_utf16().count() as u32;
    (line, col)
}

#[test]
fn utf16_columns() {
    let path = Path::new("dummy");

    // hover: ASCII line vs. the same line with one non-ASCII character in a string literal
    let ascii = "struct P { x: int32 }\nfn main() -> unit {\n    let s = \"e\"; let p = P { x: 1 }; let n = p.x; ()\n}\n";
    let uni = "struct P { x: int32 }\nfn main() -> unit {\n    let s = \"\u{e9}\"; let p = P { x: 1 }; let n = p.x; ()\n}\n";
    let off_a = ascii.find("n = p.x").unwrap();
    let off_u = uni.find("n = p.x").unwrap();
    let (la, ca) = monaco_pos(ascii, off_a);
    let (lu, cu) = monaco_pos(uni, off_u);
    assert_eq!((la, ca), (lu, cu), "the editor shows the binder `n` in the same column");
    let ha = hover_type(path, ascii, la, ca);
    let hu = hover_type(path, uni, lu, cu);
    println!("hover ascii  => {:?}", ha);
    println!("hover non-ascii => {:?}", hu);

    // hover on the field `x` of `p.x`: with the non-ASCII character the answer is the type
    // of `p`, a different expression
    let (lfa, cfa) = monaco_pos(ascii, ascii.find("p.x").unwrap() + 2);
    let (lfu, cfu) = monaco_pos(uni, uni.find("p.x").unwrap() + 2);
    assert_eq!((lfa, cfa), (lfu, cfu));
    let fa = hover_type(path, ascii, lfa, cfa);
    let fu = hover_type(path, uni, lfu, cfu);
    println!("hover field ascii  => {:?}", fa);
    println!("hover field non-ascii => {:?}", fu);
    assert_eq!(fa, Ok("int32".to_string()));
    assert!(fu != fa, "field hover agrees: defect absent");

    // dot completion: cursor right after `p.`
    let ascii_c = "struct P { x: int32 }\nfn main() -> unit {\n    let s = \"e\"; let p = P { x: 1 }; let n = p.; ()\n}\n";
    let uni_c = "struct P { x: int32 }\nfn main() -> unit {\n    let s = \"\u{e9}\"; let p = P { x: 1 }; let n = p.; ()\n}\n";
    let oa = ascii_c.find("p.;").unwrap() + 2;
    let ou = uni_c.find("p.;").unwrap() + 2;
    let (l1, c1) = monaco_pos(ascii_c, oa);
    let (l2, c2) = monaco_pos(uni_c, ou);
    assert_eq!((l1, c1), (l2, c2));
    let da = dot_completions(path, ascii_c, l1, c1).map(|v| v.into_iter().map(|i| i.name).collect::<Vec<_>>());
    let du = dot_completions(path, uni_c, l2, c2).map(|v| v.into_iter().map(|i| i.name).collect::<Vec<_>>());
    println!("dot ascii  => {:?}", da);
    println!("dot non-ascii => {:?}", du);

    assert_eq!(ha, Ok("int32".to_string()));
    assert_eq!(da, Some(vec!["x".to_string()]));
    // defect present iff the answers differ although the editor position is the same
    assert!(hu != ha, "hover agrees: defect absent");
    assert!(du != da, "completions agree: defect absent");
    println!("DEFECT PRESENT");
}
