#!/bin/sh
# Run from the repository root. Exit 0 = defect present.
here=$(cd "$(dirname "$0")" && pwd)
echo "--- how the web app computes the position it passes to the wasm entry points:"
grep -n "position.column - 1\|hover(content, line, col)\|dot_completions(content, line, col)\|colon_colon_completions(content, line, col)" webapp/src/App.tsx
t=crates/compiler/tests/zz_c18c20_6_utf16.rs
cp "$here/zz_c18c20_6_utf16.rs" "$t" || exit 2
cargo test --offline -p compiler --test zz_c18c20_6_utf16 -- --nocapture > "$here/last_run.log" 2>&1
rc=$?
rm -f "$t"
grep -E "^hover|^dot|DEFECT PRESENT|panicked|defect absent" "$here/last_run.log"
[ $rc -eq 0 ] && grep -q "DEFECT PRESENT" "$here/last_run.log"
