#!/bin/sh
# Run from the repository root. Exits 0 when the defect is PRESENT.
# A closure that is the result of an if / match (even the *same* closure variable in every branch)
# is assigned, as its environment struct, to a Go variable of func type and then called like a func.
HERE=$(cd "$(dirname "$0")" && pwd)
BIN=${GOML:-./target/debug/compiler}
[ -x "$BIN" ] || cargo build --offline -p compiler >/dev/null 2>&1 || exit 2
out=$("$BIN" run --dump-go "$HERE/prog/main.gom" 2>&1)
ctl=$("$BIN" run --dump-go "$HERE/control/main.gom" 2>&1)
echo "$out" | sed -n '/^func pick/,/^func main0/p'
echo "$out" | grep -q '^== Go ==' || { echo "program was rejected by the compiler: defect absent"; exit 1; }
echo "$out" | grep -q '^error' && { echo "diagnostic reported: defect absent"; exit 1; }
# control: a closure copied by a plain let keeps its struct type and is called through apply;
# top-level functions chosen by an if are fine
echo "$ctl" | grep -q 'var g__[0-9]* closure_env_f_0 = f__' || { echo "control unexpected"; exit 2; }
echo "$ctl" | grep -q '_goml_inherent_closure_env_f_0_closure_env_f_0_apply(g__' || { echo "control unexpected"; exit 2; }
# defect: g / h / f are Go func variables ...
echo "$out" | grep -q 'var g__[0-9]* func(int32) int32$' || exit 1
echo "$out" | grep -q 'var h__[0-9]* func(int32) int32$' || exit 1
# ... assigned a struct value ...
echo "$out" | grep -Eq '^ +g__[0-9]+ = f__[0-9]+$' || exit 1
echo "$out" | grep -Eq '^ +f__[0-9]+ = closure_env_choose_[0-9]+\{$' || exit 1
# ... and called directly; the apply function of f (its body) is not even emitted
echo "$out" | grep -Eq 'g__[0-9]+\(1\)' || exit 1
echo "$out" | grep -q 'func _goml_inherent_closure_env_f_0_closure_env_f_0_apply' && exit 1
echo "DEFECT PRESENT: closure environment structs are assigned to func-typed Go variables at if/match joins"
exit 0
