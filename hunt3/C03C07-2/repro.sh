#!/bin/sh
# Run from the repository root. Exits 0 when the defect is present.
HERE=$(cd "$(dirname "$0")" && pwd)
BIN=./target/debug/compiler
[ -x "$BIN" ] || cargo build --offline -q -p compiler || exit 2
present=0
for p in a b c; do
  OUT=$("$BIN" run --dump-mono "$HERE/$p/main.gom" 2>&1)
  echo "--- $p"; echo "$OUT" | head -3
  if echo "$OUT" | grep -q "No instance found for trait Show<TParam(T)> for operator show"; then
    present=$((present+1))
  fi
done
# control: the annotated variants are accepted and specialised
OUT=$("$BIN" run --dump-mono "$HERE/ok/main.gom" 2>&1)
echo "$OUT" | grep -q "fn show_opt__T_int32" || { echo "control program not accepted"; exit 1; }
[ "$present" -eq 3 ] || { echo "defect absent ($present/3 rejected)"; exit 1; }
echo "DEFECT PRESENT: valid trait-bound calls are rejected"
exit 0
