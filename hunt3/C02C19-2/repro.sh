#!/bin/bash
# Run from the repository root. Exits 0 when the defect is PRESENT.
# Defect: the Go struct type of an enum variant is named after the bare variant, and
# variant_struct_name only avoids names of goml struct/enum types. A function of package Main
# or an extern type alias with the same name is declared a second time in the Go package block.
HERE="$(cd "$(dirname "$0")" && pwd)"
BIN=./target/debug/compiler
[ -x "$BIN" ] || cargo build --offline -p compiler -q || exit 2
status=1

out="$($BIN run --dump-go "$HERE/fn_clash/main.gom" 2>&1)"
if echo "$out" | grep -q '^== Go ==' \
   && echo "$out" | grep -qE '^type Circle struct' \
   && echo "$out" | grep -qE '^func Circle\('; then
    echo "[fn_clash] accepted; Go declares 'Circle' twice in the package block:"
    echo "$out" | grep -nE '^type Circle struct|^func Circle\('
    status=0
fi
# the consistently renamed program (function Circle -> Round) has no clash
out2="$($BIN run --dump-go "$HERE/fn_renamed/main.gom" 2>&1)"
if echo "$out2" | grep -qE '^func Round\(' && [ "$(echo "$out2" | grep -cE '^(type|func) Circle\b')" = "1" ]; then
    echo "[fn_renamed] after renaming the user function the output declares Circle once"
fi

out="$($BIN run --dump-go "$HERE/extern_clash/main.gom" 2>&1)"
if echo "$out" | grep -q '^== Go ==' \
   && echo "$out" | grep -qE '^type Duration struct' \
   && echo "$out" | grep -qE '^type Duration = time\.Duration'; then
    echo "[extern_clash] accepted; Go declares type 'Duration' twice:"
    echo "$out" | grep -nE '^type Duration'
    status=0
fi
[ $status -eq 0 ] && echo "DEFECT PRESENT: go build would fail with '... redeclared in this block'"
exit $status
