#!/usr/bin/env bash
# Run from the repository root. Exit 0 = defect present.
set -u
HERE="$(cd "$(dirname "${BASH_SOURCE[0]}")" && pwd)"
ROOT="$(pwd)"
# Set GOML_COMPILER=/path/to/compiler to use an already built binary; otherwise it is built here.
if [ -n "${GOML_COMPILER:-}" ]; then
  BIN="$GOML_COMPILER"
else
  cargo build --offline -q -p compiler 2>/dev/null || cargo build --offline -p compiler || exit 2
  BIN="$ROOT/target/debug/compiler"
fi
W="$(mktemp -d)"; trap 'rm -rf "$W"' EXIT
cp "$HERE/main.gom" "$W/main.gom"
OUT="$("$BIN" run --dump-ast --dump-core "$W/main.gom" 2>&1)"
echo "$OUT" | grep -E 'error|let a|let b'
if ! echo "$OUT" | grep -q '^error' \
   && echo "$OUT" | grep -q 'let a/[0-9]* = P.y(p/[0-9]*) in' \
   && echo "$OUT" | grep -q 'let b/[0-9]* = inherent#P#P#get(p/[0-9]*) in'; then
  echo "DEFECT: 'p.Nope::Other::y' and 'p.Whatever::get()' accepted and read as 'p.y' / 'p.get()'"
  exit 0
fi
exit 1
