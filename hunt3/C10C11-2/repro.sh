#!/usr/bin/env bash
# Run from the repository root. Exit 0 = defect present.
set -u
HERE="$(cd "$(dirname "${BASH_SOURCE[0]}")" && pwd)"
ROOT="$(pwd)"
# Set GOML_COMPILER=/path/to/compiler to use an already built binary; otherwise it is built here.
if [ -n "${GOML_COMPILER:-}" ]; then
  BIN="$GOML_COMPILER"
else
  cargo build --offline -q -p compiler 2>/dev/null || cargo build --offline -p compiler || exit 2
  BIN="$ROOT/target/debug/compiler"
fi
W="$(mktemp -d)"; trap 'rm -rf "$W"' EXIT
cp "$HERE/main.gom" "$W/main.gom"
OUT="$("$BIN" run --dump-ast --dump-core --dump-go "$W/main.gom" 2>&1)"
echo "$OUT" | sed -n '/== Core ==/,/== Go ==/p' | sed -n '/^fn main/,/^}/p'
echo "$OUT" | sed -n '/^func main0/,/^}/p'
if echo "$OUT" | grep -q '^error'; then echo "rejected (defect absent)"; exit 1; fi
# number of call expressions with a literal 5/6/7 argument in the Core of main
CALLS="$(echo "$OUT" | sed -n '/== Core ==/,/== Go ==/p' | grep -cE '\((5|6|7)\)')"
echo "calls left in Core: $CALLS (3 were written)"
if [ "$CALLS" -lt 3 ]; then
  echo "DEFECT: the argument lists of (t.0)(5) and (n.0.1)(6) were dropped; the calls never happen"
  exit 0
fi
exit 1
