#!/bin/bash
# Run from the repository root. Exits 0 when the defect is PRESENT.
# Defect: the definition of the entry function is renamed main -> main0, references to it are not.
# A goml call `main()` therefore calls Go's `func main()`, which has no result.
HERE="$(cd "$(dirname "$0")" && pwd)"
BIN=./target/debug/compiler
[ -x "$BIN" ] || cargo build --offline -p compiler -q || exit 2

out="$($BIN run --dump-go "$HERE/prog/main.gom" 2>&1)"
echo "$out" | grep -q '^== Go ==' || { echo "program not accepted:"; echo "$out" | head; exit 1; }
# goml's main is emitted as `func main0() struct{}`; Go's `func main()` returns nothing
echo "$out" | grep -qE '^func main0\(\) struct\{\}' || exit 1
echo "$out" | grep -qE '^func main\(\) \{' || exit 1
if echo "$out" | grep -nE '^\s+(var )?[A-Za-z_0-9]+( struct\{\})? = main\(\)$'; then
    echo "DEFECT PRESENT: the result-less Go function main() is used as a value"
    echo "(go build: 'main() (no value) used as value'); the renamed twin compiles to:"
    $BIN run --dump-go "$HERE/renamed/main.gom" 2>&1 | grep -nE '= start\(\)$'
    exit 0
fi
exit 1
