#!/bin/bash
# Run from the repository root. Exits 0 when the defect is PRESENT.
# Defect: only the existence of a function called `main` is checked; its signature is not.
# The back end always emits `func main() { main0() }`.
HERE="$(cd "$(dirname "$0")" && pwd)"
BIN=./target/debug/compiler
[ -x "$BIN" ] || cargo build --offline -p compiler -q || exit 2
status=1

out="$($BIN run --dump-go "$HERE/main_params/main.gom" 2>&1)"
if echo "$out" | grep -q '^== Go ==' \
   && echo "$out" | grep -qE '^func main0\(argc__0 int32\) int32' \
   && echo "$out" | grep -qE '^\s+main0\(\)$'; then
    echo "[main_params] accepted; main0 takes one parameter but is called without arguments:"
    echo "$out" | grep -nE '^func main0|^\s+main0\(\)$'
    status=0
fi
out="$($BIN run --dump-go "$HERE/main_generic/main.gom" 2>&1)"
if echo "$out" | grep -q '^== Go ==' \
   && ! echo "$out" | grep -qE '^func main0' \
   && echo "$out" | grep -qE '^\s+main0\(\)$'; then
    echo "[main_generic] accepted; main0 is called but never declared:"
    echo "$out"
    status=0
fi
[ $status -eq 0 ] && echo "DEFECT PRESENT: go build: 'not enough arguments in call to main0' / 'undefined: main0'"
exit $status
