#!/usr/bin/env bash
# Run from the repository root. Exit 0 = defect present.
set -u
HERE="$(cd "$(dirname "${BASH_SOURCE[0]}")" && pwd)"
ROOT="$(pwd)"
# Set GOML_COMPILER=/path/to/compiler to use an already built binary; otherwise it is built here.
if [ -n "${GOML_COMPILER:-}" ]; then
  BIN="$GOML_COMPILER"
else
  cargo build --offline -q -p compiler 2>/dev/null || cargo build --offline -p compiler || exit 2
  BIN="$ROOT/target/debug/compiler"
fi
W="$(mktemp -d)"; trap 'rm -rf "$W"' EXIT
present=1
mkdir -p "$W/bom" "$W/nul"
cp "$HERE/bom.gom" "$W/bom/main.gom"
cp "$HERE/nul.gom" "$W/nul/main.gom"

"$BIN" run --dump-go "$W/bom/main.gom" > "$W/bom.out" 2>&1
echo "--- bom.gom: emitted Go line (cat -v)"
grep -a 'string_println("a' "$W/bom.out" | cat -v
# U+FEFF = EF BB BF, raw, not at offset 0 of the Go file
if grep -a 'string_println("a' "$W/bom.out" | grep -aq $'a\xef\xbb\xbfb'; then
  echo "DEFECT: U+FEFF copied raw into the Go string literal (gc: 'invalid BOM in the middle of the file')"
  present=0
fi

"$BIN" run --dump-go "$W/nul/main.gom" > "$W/nul.out" 2>&1
echo "--- nul.gom: emitted Go line (cat -v)"
grep -a 'var s__0' "$W/nul.out" | cat -v
if grep -a 'var s__0' "$W/nul.out" | cat -v | grep -q 'a\^@b'; then
  echo "DEFECT: NUL byte copied raw into the Go string literal (gc: 'invalid NUL character')"
  present=0
fi
exit $present
