#!/usr/bin/env python3
# usage: gen.py N out.gom  -- a record with N int32 fields and #[derive(ToString)]
import sys
n = int(sys.argv[1])
src = "#[derive(ToString)]\nstruct Row {\n" + "".join(f"    c{i}: int32,\n" for i in range(n)) + "}\n"
src += "fn main() {\n    let r = Row { " + ", ".join(f"c{i}: {i}" for i in range(n)) + " };\n"
src += "    string_println(r.to_string())\n}\n"
open(sys.argv[2], "w").write(src)
