#!/bin/sh
# Run from the repository root. Exits 0 when the defect is present.
HERE=$(cd "$(dirname "$0")" && pwd)
BIN=./target/debug/compiler
[ -x "$BIN" ] || cargo build --offline -q -p compiler || exit 2
n=0
OUT=$("$BIN" run --dump-go "$HERE/params/main.gom" 2>&1)
if echo "$OUT" | grep -q "^func main0(x__0 int32) struct{} {" && echo "$OUT" | grep -q "^    main0()$"; then
  echo "params: accepted; Go declares main0(x__0 int32) and calls main0()"; n=$((n+1))
fi
OUT=$("$BIN" run --dump-mono --dump-go "$HERE/generic/main.gom" 2>&1)
echo "$OUT" | sed -n '/== Mono ==/,$p' | head -12
if echo "$OUT" | grep -q "^    main0()$" && ! echo "$OUT" | grep -q "^func main0" && ! echo "$OUT" | grep -q "^fn main"; then
  echo "generic: accepted; Mono is empty and Go calls an undeclared main0"; n=$((n+1))
fi
[ "$n" -eq 2 ] || { echo "defect absent ($n/2)"; exit 1; }
echo "DEFECT PRESENT: the signature of main is never checked"
exit 0
