#!/bin/sh
# Run from the repository root. Exits 0 when the defect is present.
HERE=$(cd "$(dirname "$0")" && pwd)
BIN=./target/debug/compiler
[ -x "$BIN" ] || cargo build --offline -q -p compiler || exit 2
OUT=$("$BIN" run --dump-go "$HERE/prog/main.gom" 2>&1)
echo "$OUT" | grep -q "error (typer)" && { echo "rejected: defect absent"; exit 1; }
echo "$OUT" | grep -q "^package main" || { echo "no Go emitted"; exit 1; }
echo "$OUT" | sed -n '/^type S struct/,/^}/p;/^type A struct/,/^}/p;/^type B struct/,/^}/p;/^type Node__int32 struct/,/^}/p;/^type Tuple2_int32_Node__int32 struct/,/^}/p'
echo "$OUT" | grep -A2 "^type S struct" | grep -q "next S" || { echo "S not recursive in Go"; exit 1; }
echo "$OUT" | grep -A1 "^type A struct" | grep -q "b \[2\]B" || exit 1
echo "$OUT" | grep -A1 "^type B struct" | grep -q "a A" || exit 1
echo "$OUT" | grep -A2 "^type Node__int32 struct" | grep -q "next Tuple2_int32_Node__int32" || exit 1
echo "DEFECT PRESENT: infinitely sized struct types are accepted and emitted as invalid recursive Go types"
exit 0
