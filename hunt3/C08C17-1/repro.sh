#!/bin/sh
# Run from the repository root. Exits 0 when the defect is PRESENT.
# A struct and a trait share the name `Show`; `s.show()` runs the inherent method but
# `Show::show(s)` (the T::m(x) form of the same inherent method) silently runs the trait impl.
HERE=$(cd "$(dirname "$0")" && pwd)
BIN=${GOML:-./target/debug/compiler}
[ -x "$BIN" ] || cargo build --offline -p compiler >/dev/null 2>&1 || exit 2
out=$("$BIN" run --dump-go "$HERE/prog/main.gom" 2>&1)
ctl=$("$BIN" run --dump-go "$HERE/control/main.gom" 2>&1)
echo "$out" | sed -n '/^func main0/,/^}/p'
# the program is accepted (Go is emitted, no diagnostics)
echo "$out" | grep -q '^== Go ==' || { echo "program was rejected: defect absent"; exit 1; }
echo "$out" | grep -q '^error' && { echo "diagnostic reported: defect absent"; exit 1; }
# control: without the trait both forms call the inherent method
n=$(echo "$ctl" | grep -c '_goml_inherent_Show_Show_show(s__')
[ "$n" -eq 2 ] || { echo "control unexpected ($n)"; exit 2; }
# with the trait: x.m() -> inherent, T::m(x) -> trait impl
echo "$out" | grep -q 'var a__[0-9]* string = _goml_inherent_Show_Show_show(s__' || exit 1
echo "$out" | grep -q 'var b__[0-9]* string = _goml_trait_impl_Show_Show_show(s__' || exit 1
echo "DEFECT PRESENT: s.show() -> inherent method, Show::show(s) -> trait impl (program prints: inherent trait)"
exit 0
