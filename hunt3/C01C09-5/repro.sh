#!/bin/sh
# Run from the repository root.  Exits 0 when the defect is PRESENT.
#  params/:    `fn main(argc: int32) -> int32` is accepted; the emitted Go entry point calls
#              `main0()` without the argument.
#  recursive/: a call of `main` from goml code is emitted as a call of the Go wrapper
#              `func main()` (which has no result) in a position that needs a value.
set -u
HERE=$(cd "$(dirname "$0")" && pwd)
cargo build --offline -q -p compiler >/dev/null 2>&1 || { echo "build failed"; exit 2; }
BIN=./target/debug/compiler
G1=$("$BIN" run --dump-go "$HERE/params/main.gom" 2>&1)
G2=$("$BIN" run --dump-go "$HERE/recursive/main.gom" 2>&1)
if printf '%s\n%s\n' "$G1" "$G2" | grep -q '^error'; then
    echo "a diagnostic was reported: defect absent"; exit 1
fi
p1=$(printf '%s\n' "$G1" | grep -c '^func main0(argc__0 int32) int32')
p2=$(printf '%s\n' "$G1" | sed -n '/^func main() {/,/^}/p' | grep -c '^    main0()$')
r1=$(printf '%s\n' "$G2" | grep -c '= main()$')
r2=$(printf '%s\n' "$G2" | grep -c '^func main() {$')
printf '%s\n' "$G1" | sed -n '/^func main0/p;/^func main() {/,/^}/p'
printf '%s\n' "$G2" | grep -n '= main()$'
if [ "$p1" -eq 1 ] && [ "$p2" -eq 1 ] && [ "$r1" -ge 1 ] && [ "$r2" -eq 1 ]; then
    echo "DEFECT PRESENT: main0 needs an argument but is called as main0(); a value is taken from the result-less Go func main()"
    exit 0
fi
exit 1
