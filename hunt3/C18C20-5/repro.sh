#!/bin/sh
# Run from the repository root. Exit 0 = defect present.
here=$(cd "$(dirname "$0")" && pwd)
cargo build --offline -q -p compiler || exit 2
echo "--- the project is accepted by the compiler (stops only at the missing Go toolchain, or prints 50):"
./target/debug/compiler run "$here/proj/main.gom" 2>&1 | tail -n 2
t=crates/compiler/tests/zz_c18c20_5_lib_pkg.rs
cp "$here/zz_c18c20_5_lib_pkg.rs" "$t" || exit 2
REPRO_DIR="$here" cargo test --offline -p compiler --test zz_c18c20_5_lib_pkg -- --nocapture > "$here/last_run.log" 2>&1
rc=$?
rm -f "$t"
grep -E "^main.gom|^Shape/|^Geo/|DEFECT PRESENT|panicked|defect absent" "$here/last_run.log"
[ $rc -eq 0 ] && grep -q "DEFECT PRESENT" "$here/last_run.log"
