use std::path::PathBuf;

use compiler::query::{colon_colon_completions, dot_completions, hover_type};

fn lc(src: &str, off: usize) -> (u32, u32) {
    let before = &src[..off];
    let line = before.matches('\n').count() as u32;
    let col = (off - before.rfind('\n').map(|i| i + 1).unwrap_or(0)) as u32;
    (line, col)
}

#[test]
fn queries_in_a_library_package_with_imports() {
    let root = PathBuf::from(env!("REPRO_DIR")).join("proj");

    // entry package: works
    let main_path = root.join("main.gom");
    let main_src = std::fs::read_to_string(&main_path).unwrap();
    let (l, c) = lc(&main_src, main_src.find("q = Geo").unwrap());
    let h_main = hover_type(&main_path, &main_src, l, c);
    println!("main.gom       hover on `q`            => {:?}", h_main);

    // library package without imports: works (single-file path)
    let shape_path = root.join("Shape/lib.gom");
    let shape_src = std::fs::read_to_string(&shape_path).unwrap();
    let (l, c) = lc(&shape_src, shape_src.find("p.x + p.y").unwrap());
    let h_shape = hover_type(&shape_path, &shape_src, l, c);
    println!("Shape/lib.gom  hover on `p`            => {:?}", h_shape);

    // library package with an import: every query fails
    let geo_path = root.join("Geo/lib.gom");
    let geo_src = std::fs::read_to_string(&geo_path).unwrap();
    let (l, c) = lc(&geo_src, geo_src.find("d = p.x").unwrap());
    let h_geo = hover_type(&geo_path, &geo_src, l, c);
    println!("Geo/lib.gom    hover on `d`            => {:?}", h_geo.as_ref().map_err(|e| e.chars().take(230).collect::<String>()));
    let geo_dot = geo_src.replace("    d\n", "    p.\n");
    let (l, c) = lc(&geo_dot, geo_dot.find("    p.\n").unwrap() + 6);
    let d_geo = dot_completions(&geo_path, &geo_dot, l, c);
    println!("Geo/lib.gom    completions after `p.`     => {:?}", d_geo);
    let geo_cc = geo_src.replace("    d\n", "    Shape::\n");
    let (l, c) = lc(&geo_cc, geo_cc.find("    Shape::\n").unwrap() + 11);
    let c_geo = colon_colon_completions(&geo_path, &geo_cc, l, c);
    println!("Geo/lib.gom    completions after `Shape::` => {:?}", c_geo);

    assert_eq!(h_main, Ok("Shape::Point".to_string()));
    assert_eq!(h_shape, Ok("Shape::Point".to_string()));
    assert!(h_geo.is_err() && d_geo.is_none() && c_geo.is_none(), "defect absent");
    println!("DEFECT PRESENT");
}
