#!/bin/sh
# usage: gen.sh <fields> <derive|noderive> <outfile>
n=$1; mode=$2; out=$3
{
  if [ "$mode" = derive ]; then echo '#[derive(ToJson)]'; fi
  echo 'struct Wide {'
  i=0; while [ $i -lt $n ]; do echo "    f$i: int32,"; i=$((i+1)); done
  echo '}'
  echo 'fn main() -> unit {'
  printf '    let w = Wide { '
  i=0; while [ $i -lt $n ]; do printf 'f%d: %d, ' $i $i; i=$((i+1)); done
  echo '};'
  echo '    string_println(int32_to_string(w.f1))'
  echo '}'
} > "$out"
