#!/bin/sh
# Run from the repository root. Exit 0 = defect present.
here=$(cd "$(dirname "$0")" && pwd)
cargo build --offline -q -p compiler || exit 2
bin=${BIN:-./target/debug/compiler}
tmp=$(mktemp -d)
mkdir -p "$tmp/derive" "$tmp/plain"
N=${N:-120}
"$here/gen.sh" "$N" derive   "$tmp/derive/main.gom"
"$here/gen.sh" "$N" noderive "$tmp/plain/main.gom"

# control: the same struct without the derive goes through the whole pipeline (the run then
# stops at "failed to execute go" when there is no Go toolchain; with one it prints 1)
"$bin" run --dump-go "$tmp/plain/main.gom" > "$tmp/plain.out" 2>&1
plain=$?
"$bin" run --dump-go "$tmp/derive/main.gom" > "$tmp/derive.out" 2>&1
der=$?
echo "without derive: exit $plain, Go emitted: $(grep -c '^func main0' "$tmp/plain.out")"
echo "with    derive: exit $der"
tail -n 3 "$tmp/derive.out"
if grep -q 'overflowed its stack' "$tmp/derive.out" && grep -q '^func main0' "$tmp/plain.out"; then
  echo "DEFECT PRESENT: #[derive(ToJson)] on a $N-field struct aborts the compiler"
  rm -rf "$tmp"; exit 0
fi
rm -rf "$tmp"; exit 1
