#!/bin/sh
# Run from the repository root.  Exits 0 when the defect is PRESENT:
# Ref operations that are shared with a `go` activation are emitted as plain,
# unsynchronised Go loads/stores (no sync / sync/atomic), i.e. the emitted
# program has a data race exactly of the shape the Go memory model documents
# as "not guaranteed to finish / may print the empty string".
set -u
HERE=$(cd "$(dirname "$0")" && pwd)
cargo build --offline -q -p compiler >/dev/null 2>&1 || { echo "build failed"; exit 2; }
BIN=./target/debug/compiler
status=1
for prog in mp corpus042; do
    GO=$("$BIN" run --dump-go "$HERE/$prog/main.gom" 2>/dev/null | sed -n '/^package main/,$p')
    [ -n "$GO" ] || { echo "$prog: no Go emitted"; exit 2; }
    spawns=$(printf '%s\n' "$GO" | grep -c '^ *go ')
    plain_store=$(printf '%s\n' "$GO" | grep -c 'reference\.value = value')
    plain_load=$(printf '%s\n' "$GO" | grep -c 'return reference\.value')
    synced=$(printf '%s\n' "$GO" | grep -c -E '"sync"|"sync/atomic"|atomic\.|Mutex|chan ')
    echo "$prog: go statements=$spawns plain stores=$plain_store plain loads=$plain_load sync primitives=$synced"
    if [ "$spawns" -ge 1 ] && [ "$plain_store" -ge 1 ] && [ "$plain_load" -ge 1 ] && [ "$synced" -eq 0 ]; then
        status=0
    else
        exit 1
    fi
done
[ $status -eq 0 ] && echo "DEFECT PRESENT: Ref cells shared with a goroutine are accessed without any synchronisation"
exit $status
