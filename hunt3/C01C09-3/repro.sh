#!/bin/sh
# Run from the repository root.  Exits 0 when the defect is PRESENT: both programs are
# accepted without any diagnostic and the emitted Go declares the variant struct `Dot` /
# the struct field `id` twice.
set -u
HERE=$(cd "$(dirname "$0")" && pwd)
cargo build --offline -q -p compiler >/dev/null 2>&1 || { echo "build failed"; exit 2; }
BIN=./target/debug/compiler

OUT1=$("$BIN" run --dump-go "$HERE/variants/main.gom" 2>&1)
OUT2=$("$BIN" run --dump-go "$HERE/fields/main.gom" 2>&1)
if printf '%s\n%s\n' "$OUT1" "$OUT2" | grep -q '^error'; then
    echo "a diagnostic was reported: defect absent"
    printf '%s\n%s\n' "$OUT1" "$OUT2" | grep '^error'
    exit 1
fi
v=$(printf '%s\n' "$OUT1" | grep -c '^type Dot struct')
f=$(printf '%s\n' "$OUT2" | sed -n '/^type Account struct/,/^}/p' | grep -c '^    id ')
echo "variants: 'type Dot struct' declared $v times"
echo "fields:   field 'id' of Account declared $f times"
printf '%s\n' "$OUT2" | sed -n '/^type Account struct/,/^}/p'
if [ "$v" -ge 2 ] && [ "$f" -ge 2 ]; then
    echo "DEFECT PRESENT"
    exit 0
fi
exit 1
