#!/usr/bin/env python3
# usage: gen.py N out.gom  -- one function whose body is a match with N integer arms (a generated table)
import sys
n = int(sys.argv[1])
src = "fn f(x: int32) -> int32 {\n    match x {\n"
src += "".join(f"        {i} => {(i * 7) % 1000},\n" for i in range(n))
src += "        _ => 0,\n    }\n}\nfn main() { string_println(int32_to_string(f(3))) }\n"
open(sys.argv[2], "w").write(src)
