#!/bin/bash
# Run from the repository root. Exits 0 when the defect is PRESENT.
# All compiler stages succeed on a match with 40000 arms, then rendering the Go file overflows the
# stack while the `pretty` document is dropped (release build: N=150000).
HERE="$(cd "$(dirname "$0")" && pwd)"
ROOT="$(pwd)"
BIN="${GOML_BIN:-$ROOT/target/debug/compiler}"
case "$BIN" in /*) ;; *) BIN="$ROOT/$BIN" ;; esac
if [ ! -x "$BIN" ]; then cargo build --offline -p compiler >/dev/null 2>&1 || { echo "build failed"; exit 2; }; fi
N="${N:-40000}"
W="$(mktemp -d)"; trap 'rm -rf "$W"' EXIT
mkdir -p "$W/small" "$W/big"
python3 "$HERE/gen.py" 5000 "$W/small/main.gom"
python3 "$HERE/gen.py" "$N" "$W/big/main.gom"
(cd "$W/small" && "$BIN" run --dump-go main.gom >out.txt 2>err.txt)
grep -q "func main0" "$W/small/out.txt" || { echo "control (5000 arms) did not compile"; head -3 "$W/small/err.txt"; exit 2; }
(cd "$W/big" && "$BIN" run main.gom >out.txt 2>err.txt; echo $? >code)
code=$(cat "$W/big/code")
echo "exit status for $N arms: $code: $(grep -v '^$' "$W/big/err.txt" | head -2 | tr '\n' ' ')"
if grep -q "stack overflow" "$W/big/err.txt" || [ "$code" -ge 128 ]; then
  echo "DEFECT PRESENT: the compiler aborted while printing the Go file"; exit 0
fi
echo "defect absent"; exit 1
