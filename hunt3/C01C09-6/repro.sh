#!/bin/sh
# Run from the repository root.  Exits 0 when the defect is PRESENT: the program is accepted,
# every *use as a value* of an extern function is emitted under its goml name (`to_upper`,
# `trim`, `yield_now`), no Go declaration of these names exists, and the "strings" import that
# would provide strings.ToUpper / strings.TrimSpace has been pruned.  (`go yield_now` is the
# control: there the operand is turned into a call and is translated to runtime.Gosched().)
set -u
HERE=$(cd "$(dirname "$0")" && pwd)
cargo build --offline -q -p compiler >/dev/null 2>&1 || { echo "build failed"; exit 2; }
BIN=./target/debug/compiler
OUT=$("$BIN" run --dump-go "$HERE/value/main.gom" 2>&1)
if printf '%s\n' "$OUT" | grep -q '^error'; then
    echo "rejected: defect absent"; printf '%s\n' "$OUT" | grep '^error'; exit 1
fi
GO=$(printf '%s\n' "$OUT" | sed -n '/^package main/,$p')
uses=$(printf '%s\n' "$GO" | grep -c -E '(apply\(to_upper,|= trim$|\{to_upper, trim\}|twice\(yield_now\))')
decls=$(printf '%s\n' "$GO" | grep -c -E '^func (to_upper|trim|yield_now)\(')
imports=$(printf '%s\n' "$GO" | grep -c -E '"strings"')
translated=$(printf '%s\n' "$GO" | grep -c -E 'strings\.(ToUpper|TrimSpace)')
callpos=$(printf '%s\n' "$GO" | grep -c -E 'go runtime\.Gosched\(\)')
printf '%s\n' "$GO" | grep -n -E 'to_upper|trim|yield_now|^import|"fmt"|"strings"|"runtime"'
echo "uses under the goml name: $uses, Go declarations of those names: $decls, \"strings\" import: $imports, strings.* references: $translated, call-position control (go runtime.Gosched()): $callpos"
if [ "$uses" -ge 4 ] && [ "$decls" -eq 0 ] && [ "$translated" -eq 0 ] && [ "$imports" -eq 0 ]; then
    echo "DEFECT PRESENT: undefined Go identifiers to_upper / trim / yield_now"
    exit 0
fi
exit 1
