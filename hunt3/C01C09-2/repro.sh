#!/bin/sh
# Run from the repository root.  Exits 0 when the defect is PRESENT: the compiler accepts
# both programs and emits Go in which one package-level identifier is declared twice
# (a variant struct next to an extern type alias / next to a function).
set -u
HERE=$(cd "$(dirname "$0")" && pwd)
cargo build --offline -q -p compiler >/dev/null 2>&1 || { echo "build failed"; exit 2; }
BIN=./target/debug/compiler

GO1=$("$BIN" run --dump-go "$HERE/ext/main.gom" 2>/dev/null | sed -n '/^package main/,$p')
GO2=$(cd "$HERE/pkg" && "$OLDPWD/$BIN" run --dump-go ./main.gom 2>/dev/null | sed -n '/^package main/,$p')
[ -n "$GO1" ] && [ -n "$GO2" ] || { echo "a program was rejected: defect absent (or changed)"; exit 1; }

a1=$(printf '%s\n' "$GO1" | grep -c '^type Time struct')
a2=$(printf '%s\n' "$GO1" | grep -c '^type Time = time\.Time')
b1=$(printf '%s\n' "$GO2" | grep -c '^type Mul struct')
b2=$(printf '%s\n' "$GO2" | grep -c '^func Mul(')
echo "ext: 'type Time struct' x$a1, 'type Time = time.Time' x$a2"
echo "pkg: 'type Mul struct' x$b1, 'func Mul(' x$b2"
if [ "$a1" -ge 1 ] && [ "$a2" -ge 1 ] && [ "$b1" -ge 1 ] && [ "$b2" -ge 1 ]; then
    echo "DEFECT PRESENT: the emitted Go declares Time / Mul twice in the package block"
    exit 0
fi
exit 1
