use std::path::Path;

use compiler::query::colon_colon_completions;

fn complete(text_with_cursor: &str) -> Vec<String> {
    let off = text_with_cursor.find("$0").expect("cursor");
    let src = text_with_cursor.replace("$0", "");
    let before = &src[..off];
    let line = before.matches('\n').count() as u32;
    let col = (off - before.rfind('\n').map(|i| i + 1).unwrap_or(0)) as u32;
    colon_colon_completions(Path::new("dummy"), &src, line, col)
        .unwrap_or_default()
        .into_iter()
        .map(|i| format!("{}:{:?}", i.name, i.kind))
        .collect()
}

const HEAD: &str = r#"enum Color { Red, Green }
impl Color {
    fn is_red(self: Color) -> bool { true }
    fn make() -> Color { Color::Red }
}
struct Point { x: int32 }
impl Point { fn origin() -> Point { Point { x: 0 } } }
"#;

#[test]
fn cc_completions_ignore_position() {
    // pattern position
    let pat = complete(&format!(
        "{HEAD}fn f(c: Color) -> int32 {{ match c {{ Color::$0 => 1, _ => 2 }} }}\nfn main() -> unit {{ () }}\n"
    ));
    // type position (annotation of a let, parameter type)
    let ty_let = complete(&format!(
        "{HEAD}fn main() -> unit {{ let c: Color::$0 = Color::Red; () }}\n"
    ));
    let ty_param = complete(&format!(
        "{HEAD}fn g(p: Point::$0) -> unit {{ () }}\nfn main() -> unit {{ () }}\n"
    ));
    println!("pattern  `match c {{ Color::| => ..`  => {:?}", pat);
    println!("type     `let c: Color::| = ..`      => {:?}", ty_let);
    println!("type     `fn g(p: Point::|)`         => {:?}", ty_param);
    let bad_pat = pat.iter().any(|i| i.starts_with("is_red") || i.starts_with("make"));
    let bad_ty = !ty_let.is_empty() || !ty_param.is_empty();
    assert!(bad_pat, "no method offered in a pattern: defect absent");
    assert!(bad_ty, "nothing offered in a type: defect absent");
    println!("DEFECT PRESENT");
}
