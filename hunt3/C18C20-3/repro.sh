#!/bin/sh
# Run from the repository root. Exit 0 = defect present.
here=$(cd "$(dirname "$0")" && pwd)
t=crates/compiler/tests/zz_c18c20_3_cc_position.rs
cp "$here/zz_c18c20_3_cc_position.rs" "$t" || exit 2
cargo test --offline -p compiler --test zz_c18c20_3_cc_position -- --nocapture > "$here/last_run.log" 2>&1
rc=$?
rm -f "$t"
grep -E "^pattern|^type|DEFECT PRESENT|panicked|defect absent" "$here/last_run.log"
cargo build --offline -q -p compiler || exit 2
echo "--- the offered items, inserted:"
./target/debug/compiler run "$here/inserted_pattern/main.gom" 2>&1 | head -3
./target/debug/compiler run "$here/inserted_type/main.gom" 2>&1 | head -3
[ $rc -eq 0 ] && grep -q "DEFECT PRESENT" "$here/last_run.log"
