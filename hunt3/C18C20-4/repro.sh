#!/bin/sh
# Run from the repository root. Exit 0 = defect present.
here=$(cd "$(dirname "$0")" && pwd)
cargo build --offline -q -p compiler || exit 2
echo "--- the program is accepted by the compiler (typed AST of the impl):"
./target/debug/compiler run --dump-tast "$here/prog/main.gom" 2>&1 | grep -E "error|fn show|fn sum"
t=crates/compiler/tests/zz_c18c20_4_hover_param.rs
cp "$here/zz_c18c20_4_hover_param.rs" "$t" || exit 2
REPRO_DIR="$here" cargo test --offline -p compiler --test zz_c18c20_4_hover_param -- --nocapture > "$here/last_run.log" 2>&1
rc=$?
rm -f "$t"
grep -E "^binder|^use|DEFECT PRESENT|panicked|defect absent" "$here/last_run.log"
[ $rc -eq 0 ] && grep -q "DEFECT PRESENT" "$here/last_run.log"
