use std::path::Path;

use compiler::query::hover_type;

fn hover_at(src: &str, needle: &str, delta: usize) -> Result<String, String> {
    let off = src.find(needle).expect("needle") + delta;
    let before = &src[..off];
    let line = before.matches('\n').count() as u32;
    let col = (off - before.rfind('\n').map(|i| i + 1).unwrap_or(0)) as u32;
    hover_type(Path::new("dummy"), src, line, col)
}

#[test]
fn hover_on_parameter_binder() {
    let src = include_str!(concat!(env!("REPRO_DIR"), "/prog/main.gom"));
    // binder `self` of the trait impl method, and a use of it in the body
    let binder_self = hover_at(src, "self: Self) -> string", 0);
    let use_self = hover_at(src, "self.x) }", 0);
    // binder `k` with an oddly spaced annotation, and a use of it
    let binder_k = hover_at(src, "k: (int32", 0);
    let use_k = hover_at(src, "k.0", 0);
    println!("binder `self` in `fn show(self: Self)`        => {:?}", binder_self);
    println!("use    `self` in its body                     => {:?}", use_self);
    println!("binder `k` in `k: (int32 ,  int32)`           => {:?}", binder_k);
    println!("use    `k` in the body                        => {:?}", use_k);
    assert_eq!(use_self, Ok("Point".to_string()));
    assert_eq!(use_k, Ok("(int32, int32)".to_string()));
    assert_ne!(binder_self, use_self, "defect absent");
    println!("DEFECT PRESENT");
}
