#!/bin/bash
# Run from the repository root. Exits 0 when the defect is PRESENT.
# In the default (debug) build the logos-generated lexer recurses once per byte of a string / number
# token: a 200 KB string literal or a 30000-digit number aborts the compiler with a stack overflow
# before any tree or diagnostic exists.
HERE="$(cd "$(dirname "$0")" && pwd)"
ROOT="$(pwd)"
BIN="${GOML_BIN:-$ROOT/target/debug/compiler}"
case "$BIN" in /*) ;; *) BIN="$ROOT/$BIN" ;; esac
if [ ! -x "$BIN" ]; then cargo build --offline -p compiler >/dev/null 2>&1 || { echo "build failed"; exit 2; }; fi
W="$(mktemp -d)"; trap 'rm -rf "$W"' EXIT
mkdir -p "$W/ctl" "$W/str" "$W/int"
python3 "$HERE/gen.py" str 20000  "$W/ctl/main.gom"
python3 "$HERE/gen.py" str 200000 "$W/str/main.gom"
python3 "$HERE/gen.py" int 30000  "$W/int/main.gom"

(cd "$W/ctl" && "$BIN" run --dump-go main.gom >out.txt 2>err.txt)
grep -q "func main0" "$W/ctl/out.txt" || { echo "control (20 KB string) did not compile"; cat "$W/ctl/err.txt" | head; exit 2; }

present=0
for k in str int; do
  (cd "$W/$k" && "$BIN" run --dump-go main.gom >out.txt 2>err.txt; echo $? >code)
  code=$(cat "$W/$k/code")
  echo "[$k] exit status $code: $(grep -v '^$' "$W/$k/err.txt" | head -2 | cut -c1-120 | tr '\n' ' ')"
  if grep -q "stack overflow" "$W/$k/err.txt" || [ "$code" -ge 128 ]; then present=1; fi
done
if [ $present = 1 ]; then echo "DEFECT PRESENT: lexing a long token aborts the process"; exit 0; fi
echo "defect absent"; exit 1
