#!/usr/bin/env python3
# usage: gen.py kind N out.gom
import sys
kind, n, out = sys.argv[1], int(sys.argv[2]), sys.argv[3]
if kind == "str":      # one string literal of N bytes (an embedded blob)
    src = 'fn main() {\n    let blob = "' + "s" * n + '";\n    string_println(int32_to_string(string_len(blob)))\n}\n'
elif kind == "int":    # one integer literal of N digits (malformed program: must be *diagnosed*)
    src = "fn main() {\n    let a = " + "9" * n + ";\n    ()\n}\n"
else:
    raise SystemExit("kind")
open(out, "w").write(src)
