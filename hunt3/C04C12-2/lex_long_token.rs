// Optional library-level check: copy to crates/lexer/tests/lex_long_token.rs (or any crate that
// depends on `lexer`) and run `cargo test --offline -p lexer --test lex_long_token`.
// A 2 MiB test thread overflows its stack for a 45 KB string literal (debug profile).
#[test]
fn lexes_a_45kb_string_literal() {
    let src = format!("fn main() {{ let a = \"{}\"; () }}\n", "s".repeat(45_000));
    let toks = lexer::lex(&src);
    let mut pos = 0usize;
    for t in &toks {
        assert_eq!(usize::from(t.range.start()), pos);
        pos = t.range.end().into();
    }
    assert_eq!(pos, src.len());
}
