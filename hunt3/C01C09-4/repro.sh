#!/bin/sh
# Run from the repository root.  Exits 0 when the defect is PRESENT: five well-typed
# programs are rejected with "Cannot project field N on non-tuple type TVar(..)" while the
# control program (same values, tuple type annotated / struct field instead) is accepted.
set -u
HERE=$(cd "$(dirname "$0")" && pwd)
cargo build --offline -q -p compiler >/dev/null 2>&1 || { echo "build failed"; exit 2; }
BIN=./target/debug/compiler
rejected=0
for d in field call refget vecget closure; do
    OUT=$("$BIN" run --dump-anf "$HERE/$d/main.gom" 2>&1)
    if printf '%s\n' "$OUT" | grep -q 'Cannot project field [0-9]* on non-tuple type TVar'; then
        echo "$d: $(printf '%s\n' "$OUT" | grep 'Cannot project' | head -1)"
        rejected=$((rejected + 1))
    else
        echo "$d: accepted"
    fi
done
CTRL=$("$BIN" run --dump-anf "$HERE/control/main.gom" 2>&1)
if printf '%s\n' "$CTRL" | grep -q '^error'; then
    echo "control program rejected as well: $CTRL"; exit 2
fi
echo "control: accepted"
[ "$rejected" -eq 5 ] && { echo "DEFECT PRESENT"; exit 0; }
exit 1
