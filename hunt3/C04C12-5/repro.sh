#!/bin/bash
# Run from the repository root. Exits 0 when the defect is PRESENT.
# A lowering (or derive) error in another file of the project is reported against the ENTRY file:
# the CLI prints "error (lower): main.gom: ..." although main.gom is fine and never names the file that
# contains the mistake, and the Diagnostic carries a byte range of that other file, which lies beyond
# the end of the only text the caller has (WITH_RANGE_TEST=1 checks the range through the library).
HERE="$(cd "$(dirname "$0")" && pwd)"
ROOT="$(pwd)"
BIN="${GOML_BIN:-$ROOT/target/debug/compiler}"
case "$BIN" in /*) ;; *) BIN="$ROOT/$BIN" ;; esac
if [ ! -x "$BIN" ]; then cargo build --offline -p compiler >/dev/null 2>&1 || { echo "build failed"; exit 2; }; fi
W="$(mktemp -d)"; trap 'rm -rf "$W"' EXIT
cp -r "$HERE/proj" "$HERE/proj2" "$W/"
present=0
for p in proj proj2; do
  (cd "$W/$p" && "$BIN" run main.gom >out.txt 2>err.txt; echo $? >code)
  echo "--- $p (exit $(cat "$W/$p/code"))"; cat "$W/$p/err.txt"
  if grep -q "^error (lower): main.gom:" "$W/$p/err.txt" && ! grep -q -e "lib.gom" -e "other.gom" "$W/$p/err.txt"; then present=1; fi
done
if [ "${WITH_RANGE_TEST:-0}" = 1 ]; then
  T="$ROOT/crates/compiler/tests/c04c12_5_range_check.rs"
  cp "$HERE/range_check.rs" "$T"
  (cd "$ROOT/crates/compiler" && PROJ="$W" cargo test --offline --test c04c12_5_range_check -- --nocapture 2>&1 | grep -a -e "range=" -e "test result" -e "lie outside")
  rm -f "$T"
fi
if [ $present = 1 ]; then echo "DEFECT PRESENT: the error is attributed to main.gom, the file with the mistake is not named"; exit 0; fi
echo "defect absent"; exit 1
