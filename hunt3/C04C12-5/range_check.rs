// Library-level check. repro.sh copies this file to crates/compiler/tests/c04c12_5_range_check.rs,
// runs it with PROJ=<dir of this finding> and removes it again.
use std::path::PathBuf;

#[test]
fn lower_diagnostic_of_another_file_lies_outside_the_entry_text() {
    let base = PathBuf::from(std::env::var("PROJ").expect("PROJ"));
    let mut outside = 0;
    for proj in ["proj", "proj2"] {
        let entry = base.join(proj).join("main.gom");
        let src = std::fs::read_to_string(&entry).unwrap();
        let err = compiler::pipeline::pipeline::compile(&entry, &src).unwrap_err();
        for d in err.diagnostics().iter() {
            println!("{proj}: {:?} range={:?} (entry text has {} bytes)", d.message(), d.range(), src.len());
            if let Some(r) = d.range() {
                if usize::from(r.end()) > src.len() {
                    outside += 1;
                }
            }
        }
    }
    // the property: every position lies inside the text the caller has for it
    assert_eq!(outside, 0, "{outside} diagnostic ranges lie outside the entry file's text");
}
