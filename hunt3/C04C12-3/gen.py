#!/usr/bin/env python3
# usage: gen.py N out.gom  -- dup applied N times: the value has 2^N ints (4 MiB for N=20), the program is 5 lines
import sys
n = int(sys.argv[1])
src = "fn dup[T](x: T) -> (T, T) { (x, x) }\n"
src += "fn main() {\n    let v = " + "dup(" * n + "1" + ")" * n + ";\n    ()\n}\n"
open(sys.argv[2], "w").write(src)
