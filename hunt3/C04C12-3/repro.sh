#!/bin/bash
# Run from the repository root. Exits 0 when the defect is PRESENT.
# `dup(dup(...dup(1)...))` nested 18 times (a 5-line program) does not compile within 60 s and the
# compiler's memory grows without bound: time and memory multiply by ~5.5 for every two levels.
HERE="$(cd "$(dirname "$0")" && pwd)"
ROOT="$(pwd)"
BIN="${GOML_BIN:-$ROOT/target/debug/compiler}"
case "$BIN" in /*) ;; *) BIN="$ROOT/$BIN" ;; esac
if [ ! -x "$BIN" ]; then cargo build --offline -p compiler >/dev/null 2>&1 || { echo "build failed"; exit 2; }; fi
W="$(mktemp -d)"; trap 'rm -rf "$W"' EXIT
ulimit -v 8000000 2>/dev/null
for n in 8 10 12; do
  mkdir -p "$W/n$n"; python3 "$HERE/gen.py" $n "$W/n$n/main.gom"
  s=$(date +%s.%N)
  (cd "$W/n$n" && "$BIN" run --dump-go main.gom >out.txt 2>err.txt)
  e=$(date +%s.%N)
  grep -q "func main0" "$W/n$n/out.txt" || { echo "n=$n did not compile"; head -3 "$W/n$n/err.txt"; exit 2; }
  echo "n=$n: $(echo "$e - $s" | bc) s, Go output $(wc -c < "$W/n$n/out.txt") bytes"
done
N="${N:-18}"; T="${T:-60}"
mkdir -p "$W/big"; python3 "$HERE/gen.py" $N "$W/big/main.gom"
(cd "$W/big" && timeout "$T" "$BIN" run --dump-go main.gom >out.txt 2>err.txt; echo $? >code)
code=$(cat "$W/big/code")
echo "n=$N: exit status $code after at most $T s: $(head -2 "$W/big/err.txt" | tr '\n' ' ')"
if [ "$code" = 124 ] || [ "$code" -ge 128 ] || grep -qi "memory allocation" "$W/big/err.txt"; then
  echo "DEFECT PRESENT: a 5-line well-typed program is not compiled (time-out / out of memory)"; exit 0
fi
echo "defect absent"; exit 1
