#!/bin/sh
# Run from the repository root. Exits 0 when the defect is present.
HERE=$(cd "$(dirname "$0")" && pwd)
BIN=./target/debug/compiler
[ -x "$BIN" ] || cargo build --offline -q -p compiler || exit 2
OUT=$("$BIN" run --dump-go "$HERE/prog/main.gom" 2>&1)
echo "$OUT" | grep -n "Self" 
# The program is accepted (Go is printed) ...
echo "$OUT" | grep -q "^package main" || { echo "program was not accepted"; exit 1; }
# ... and the Go text declares types over an identifier `Self` that is declared nowhere.
if echo "$OUT" | grep -Eq "^type Self( |$)"; then echo "Self is declared"; exit 1; fi
echo "$OUT" | grep -Eq "^\s+(_[0-9]+|value) Self$" || { echo "no field of type Self"; exit 1; }
echo "DEFECT PRESENT: emitted Go refers to the undeclared type Self"
exit 0
