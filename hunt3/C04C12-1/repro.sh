#!/bin/bash
# Run from the repository root. Exits 0 when the defect is PRESENT.
# A 4096-element array literal (a lookup table) makes `goml run` abort with a stack overflow
# in anf::anf_list; a 1000-element one compiles.
HERE="$(cd "$(dirname "$0")" && pwd)"
ROOT="$(pwd)"
BIN="${GOML_BIN:-$ROOT/target/debug/compiler}"
case "$BIN" in /*) ;; *) BIN="$ROOT/$BIN" ;; esac
if [ ! -x "$BIN" ]; then cargo build --offline -p compiler >/dev/null 2>&1 || { echo "build failed"; exit 2; }; fi
N="${N:-4096}"          # the release build needs N=20000
W="$(mktemp -d)"; trap 'rm -rf "$W"' EXIT
mkdir -p "$W/small" "$W/big"
python3 "$HERE/gen.py" 1000 "$W/small/main.gom"
python3 "$HERE/gen.py" "$N" "$W/big/main.gom"

(cd "$W/small" && "$BIN" run --dump-go main.gom >out.txt 2>err.txt; echo $? >code)
if ! grep -q "func main0" "$W/small/out.txt"; then echo "control program (1000 elements) did not compile:"; cat "$W/small/err.txt"; exit 2; fi

(cd "$W/big" && "$BIN" run --dump-go main.gom >out.txt 2>err.txt; echo $? >code)
code=$(cat "$W/big/code")
echo "exit status for $N elements: $code"; head -3 "$W/big/err.txt"
if grep -q "stack overflow" "$W/big/err.txt" || [ "$code" -ge 128 ]; then
  echo "DEFECT PRESENT: the compiler aborted (no diagnostic) on a $N-element array literal"; exit 0
fi
echo "defect absent"; exit 1
