#!/usr/bin/env python3
# usage: gen.py N out.gom   -- a program whose only unusual feature is an N-element array literal
import sys
n = int(sys.argv[1])
src = "fn main() {\n    let table = [" + ", ".join(str(i % 251) for i in range(n)) + "];\n"
src += "    string_println(int32_to_string(array_get(table, 3)))\n}\n"
open(sys.argv[2], "w").write(src)
