#!/bin/bash
# Run from the repository root. Exits 0 when the defect is present.
set -u
HERE="$(cd "$(dirname "${BASH_SOURCE[0]}")" && pwd)"
BIN=./target/debug/compiler
[ -x "$BIN" ] || cargo build --offline -p compiler >/dev/null 2>&1 || { echo "cannot build compiler"; exit 2; }
W=$(mktemp -d); trap 'rm -rf "$W"' EXIT
cp -r "$HERE/proj" "$W/p"

# whole-program
$BIN run --dump-go "$W/p/main.gom" > "$W/whole.go" 2>"$W/err"
grep -E "^error" "$W/err" && { echo "front end rejected the project (defect absent)"; exit 1; }
# separate compilation
mkdir "$W/a"
$BIN build --package Lib  --input "$W/p/Lib/lib.gom" --interface-path "$W/a" --output "$W/a/Lib"  || exit 2
$BIN build --package Main --input "$W/p/main.gom"    --interface-path "$W/a" --output "$W/a/Main" || exit 2
$BIN link --input "$W/a/Lib.core" "$W/a/Main.core" --output "$W/sep.go" || exit 2

rc=1
for f in "$W/whole.go" "$W/sep.go"; do
  t=$(grep -c -E "^type Circle struct" "$f"); fn=$(grep -c -E "^func Circle\(" "$f")
  echo "$(basename $f): 'type Circle struct' x$t, 'func Circle(' x$fn"
  grep -n -E "^type Circle struct|^func Circle\(" "$f"
  if [ "$t" -ge 1 ] && [ "$fn" -ge 1 ]; then rc=0; fi
done
[ $rc -eq 0 ] && echo "DEFECT: the package block of the emitted Go declares Circle twice (a type for Lib's variant, a func for Main's function)"
exit $rc
