use std::path::Path;

use compiler::query::hover_type;

fn pos(src: &str, needle: &str) -> (u32, u32) {
    let off = src.find(needle).expect("needle");
    let before = &src[..off];
    let line = before.matches('\n').count() as u32;
    let col = (off - before.rfind('\n').map(|i| i + 1).unwrap_or(0)) as u32;
    (line, col)
}

#[test]
fn hover_on_if_expression() {
    let src = r#"fn main() -> unit {
    let s = 3;
    let a = int32_to_string(if s > 2 { 1 } else { 2 });
    let b = string_len(match s { 0 => "z", _ => "nz" });
    let c = (s, if s > 2 { "x" } else { "y" });
    let d = if s > 2 { 1 } else { 2 };
    string_println(a)
}
"#;
    let path = Path::new("dummy");
    let at = |needle: &str| {
        let (l, c) = pos(src, needle);
        hover_type(path, src, l, c)
    };
    // the `match` expression of type string, argument of a call of type int32: correct
    let on_match = at("match s");
    // the `if` expression of type int32, argument of a call of type string
    let on_if = at("if s > 2 { 1 } else { 2 })");
    let on_else = at("else { 2 })");
    // the `if` expression of type string, component of a tuple
    let on_if_tuple = at("if s > 2 { \"x\"");
    // the `if` expression at statement level
    let on_if_let = at("if s > 2 { 1 } else { 2 };");
    println!("hover on `match` (expression of type string, inside string_len(..)): {:?}", on_match);
    println!("hover on `if`    (expression of type int32,  inside int32_to_string(..)): {:?}", on_if);
    println!("hover on `else`  (same expression): {:?}", on_else);
    println!("hover on `if`    (expression of type string, inside a tuple): {:?}", on_if_tuple);
    println!("hover on `if`    (value of `let d`): {:?}", on_if_let);
    assert_eq!(on_match, Ok("string".to_string()));
    // defect present iff the `if` keyword does not answer with the type of the if expression
    assert_ne!(on_if, Ok("int32".to_string()), "defect absent");
    assert_ne!(on_if_tuple, Ok("string".to_string()), "defect absent");
    println!("DEFECT PRESENT");
}
