#!/bin/sh
# Run from the repository root. Exit 0 = defect present.
here=$(cd "$(dirname "$0")" && pwd)
t=crates/compiler/tests/zz_c18c20_2_hover_if.rs
cp "$here/zz_c18c20_2_hover_if.rs" "$t" || exit 2
cargo test --offline -p compiler --test zz_c18c20_2_hover_if -- --nocapture > "$here/last_run.log" 2>&1
rc=$?
rm -f "$t"
grep -E "^hover on|DEFECT PRESENT|panicked|defect absent" "$here/last_run.log"
[ $rc -eq 0 ] && grep -q "DEFECT PRESENT" "$here/last_run.log"
