#!/usr/bin/env bash
# Run from the repository root. Exit 0 = defect present.
set -u
HERE="$(cd "$(dirname "${BASH_SOURCE[0]}")" && pwd)"
ROOT="$(pwd)"
# Set GOML_COMPILER=/path/to/compiler to use an already built binary; otherwise it is built here.
if [ -n "${GOML_COMPILER:-}" ]; then
  BIN="$GOML_COMPILER"
else
  cargo build --offline -q -p compiler 2>/dev/null || cargo build --offline -p compiler || exit 2
  BIN="$ROOT/target/debug/compiler"
fi
W="$(mktemp -d)"; trap 'rm -rf "$W"' EXIT
mkdir -p "$W/a" "$W/b"
cp "$HERE/main.gom" "$W/a/main.gom"
cp "$HERE/control.gom" "$W/b/main.gom"

echo "--- main.gom (redundant parentheses in types / patterns, () as the unit type)"
OUT="$("$BIN" run --dump-go "$W/a/main.gom" 2>&1)"
echo "$OUT" | head -12
echo "--- control.gom (same program without them)"
CTL="$("$BIN" run --dump-go "$W/b/main.gom" 2>&1)"
echo "$CTL" | grep -c '^func twice' | sed 's/^/functions named twice in emitted Go: /'

present=1
if echo "$CTL" | grep -q '^func twice' \
   && echo "$OUT" | grep -q 'Types are not equal: TInt32 and TTuple(\[TInt32\])' \
   && echo "$OUT" | grep -q 'Types are not equal: TUnit and TTuple(\[\])' \
   && echo "$OUT" | grep -q 'TTuple(\[TFunc(\[TInt32\], TInt32)\])'; then
  echo "DEFECT: (T) is read as a 1-tuple type, () as a 0-tuple type, (p) as a 1-tuple pattern"
  present=0
fi
exit $present
