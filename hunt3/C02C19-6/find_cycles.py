#!/usr/bin/env python3
"""Read emitted Go on stdin; report struct types that contain themselves by value
(directly, through other structs, or through fixed-size arrays). Slices, pointers, funcs and
interface types break a cycle in Go; plain struct and array embedding does not."""
import re, sys
src = sys.stdin.read()
structs = {}
for m in re.finditer(r'^type (\w+) struct \{(.*?)^\}', src, re.S | re.M):
    name, body = m.group(1), m.group(2)
    deps = set()
    for line in body.strip().splitlines():
        parts = line.split(None, 1)
        if len(parts) != 2:
            continue
        ty = parts[1].strip()
        ty = re.sub(r'^(\[\d+\])+', '', ty)          # [2]Tree -> Tree (arrays embed by value)
        if re.fullmatch(r'\w+', ty):
            deps.add(ty)
    structs[name] = deps
interfaces = set(re.findall(r'^type (\w+) interface', src, re.M))
bad = []
for start in structs:
    seen, stack = set(), [start]
    while stack:
        cur = stack.pop()
        for d in structs.get(cur, ()):
            if d == start:
                bad.append(start); stack = []; break
            if d in structs and d not in seen and d not in interfaces:
                seen.add(d); stack.append(d)
print(" ".join(sorted(set(bad))))
sys.exit(0 if bad else 1)
