#!/bin/bash
# Run from the repository root. Exits 0 when the defect is PRESENT.
# Defect: a struct that contains itself by value (directly or through tuples, arrays or other
# structs) is accepted and emitted as a Go struct type that contains itself by value.
HERE="$(cd "$(dirname "$0")" && pwd)"
BIN=./target/debug/compiler
[ -x "$BIN" ] || cargo build --offline -p compiler -q || exit 2
status=1
for prog in direct indirect; do
    out="$($BIN run --dump-go "$HERE/$prog/main.gom" 2>&1)"
    echo "$out" | grep -q '^== Go ==' || { echo "[$prog] not accepted"; continue; }
    if cyc=$(echo "$out" | python3 "$HERE/find_cycles.py"); then
        echo "[$prog] accepted; Go struct types that contain themselves by value: $cyc"
        status=0
    fi
done
[ $status -eq 0 ] && echo "DEFECT PRESENT: go build would fail with 'invalid recursive type'"
exit $status
