#!/bin/sh
# Run from the repository root. Exits 0 when the defect is PRESENT.
# Three values of one struct type hold three different function values in the same field.
# Lifting retypes the *declaration* of the field to the environment struct of whichever closure
# was stored last, so the other struct literals (and every read of the field) are ill-typed Go.
HERE=$(cd "$(dirname "$0")" && pwd)
BIN=${GOML:-./target/debug/compiler}
[ -x "$BIN" ] || cargo build --offline -p compiler >/dev/null 2>&1 || exit 2
out=$("$BIN" run --dump-go "$HERE/prog/main.gom" 2>&1)
ctl=$("$BIN" run --dump-go "$HERE/control/main.gom" 2>&1)
echo "$out" | sed -n '/^type Handler/,/^func main()/p'
echo "$out" | grep -q '^== Go ==' || { echo "program was rejected by the compiler: defect absent"; exit 1; }
echo "$out" | grep -q '^error' && { echo "diagnostic reported: defect absent"; exit 1; }
# control: one closure per struct type works (field retyped to that closure, call goes through apply)
echo "$ctl" | grep -A1 '^type Handler struct' | grep -q 'f closure_env_main_0' || { echo "control unexpected"; exit 2; }
# the field is declared with the environment struct of the 2nd closure ...
echo "$out" | grep -A1 '^type Handler struct' | grep -q 'f closure_env_main_1' || exit 1
# ... but is initialised with a value of the 1st closure's struct type and with the plain function inc
echo "$out" | grep -q 'var t[0-9]* closure_env_main_0 = closure_env_main_0{' || exit 1
echo "$out" | grep -q 'f: inc,' || exit 1
# ... and all three reads are typed / called as the 2nd closure
n=$(echo "$out" | grep -c '_goml_inherent_closure_env_main_1_closure_env_main_1_apply(')
[ "$n" -ge 3 ] || exit 1
# the 1st closure's code has been dropped altogether
echo "$out" | grep -q 'func _goml_inherent_closure_env_main_0_closure_env_main_0_apply' && exit 1
echo "DEFECT PRESENT: Handler.f is declared closure_env_main_1 but initialised with closure_env_main_0{...} and with inc"
exit 0
