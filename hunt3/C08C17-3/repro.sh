#!/bin/sh
# Run from the repository root. Exits 0 when the defect is PRESENT.
# An `extern "go"` function used as a value (bound by let / passed as an argument) is accepted,
# but the emitted Go refers to an identifier `to_upper` that is declared nowhere and the
# "strings" import is dropped: the Go program does not compile ("undefined: to_upper").
HERE=$(cd "$(dirname "$0")" && pwd)
BIN=${GOML:-./target/debug/compiler}
[ -x "$BIN" ] || cargo build --offline -p compiler >/dev/null 2>&1 || exit 2
out=$("$BIN" run --dump-go "$HERE/prog/main.gom" 2>&1)
ctl=$("$BIN" run --dump-go "$HERE/control/main.gom" 2>&1)
echo "$out" | sed -n '/^package main/,/^func main()/p'
echo "$out" | grep -q '^== Go ==' || { echo "program was rejected by the compiler: defect absent"; exit 1; }
echo "$out" | grep -q '^error' && { echo "diagnostic reported: defect absent"; exit 1; }
# control: a direct call is lowered to strings.ToUpper and imports "strings"
echo "$ctl" | grep -q 'strings.ToUpper(' || { echo "control unexpected"; exit 2; }
echo "$ctl" | grep -q '"strings"' || { echo "control unexpected"; exit 2; }
# value uses: bare identifier to_upper ...
echo "$out" | grep -q 'func(string) string = to_upper$' || exit 1
echo "$out" | grep -q 'apply(to_upper, "b")' || exit 1
# ... which no Go declaration introduces, and no strings import / strings.ToUpper either
echo "$out" | grep -Eq '^func to_upper\(|^var to_upper|to_upper *:?= *strings' && exit 1
echo "$out" | grep -q 'strings' && exit 1
echo "DEFECT PRESENT: Go refers to undeclared identifier to_upper (and never imports strings)"
exit 0
