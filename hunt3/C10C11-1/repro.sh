#!/usr/bin/env bash
# Run from the repository root. Exit 0 = defect present.
set -u
HERE="$(cd "$(dirname "${BASH_SOURCE[0]}")" && pwd)"
ROOT="$(pwd)"
# Set GOML_COMPILER=/path/to/compiler to use an already built binary; otherwise it is built here.
if [ -n "${GOML_COMPILER:-}" ]; then
  BIN="$GOML_COMPILER"
else
  cargo build --offline -q -p compiler 2>/dev/null || cargo build --offline -p compiler || exit 2
  BIN="$ROOT/target/debug/compiler"
fi
W="$(mktemp -d)"; trap 'rm -rf "$W"' EXIT
mkdir -p "$W/a" "$W/b"
cp "$HERE/main.gom" "$W/a/main.gom"
cp "$HERE/reject/main.gom" "$W/b/main.gom"

OUT="$("$BIN" run --dump-core "$W/a/main.gom" 2>&1)"
echo "$OUT" | sed -n '/== Core ==/,/^fn main/p'
# body of `sugar`, names and whitespace normalised
norm() { echo "$OUT" | awk -v f="fn $1(" 'index($0,f)==1{p=1;next} p&&/^}/{exit} p' | sed -E 's#/[0-9]+##g' | tr -d ' \n'; }
S="$(norm sugar)"; B="$(norm braced)"
echo "sugar : $S"; echo "braced: $B"
present=1
# correct reading: both functions are `let x = (if a {1} else {if b {2} else {3}} + 10) in x`
if [ "$S" != "$B" ] && echo "$S" | grep -q 'else{(ifb{2}else{3}+10)}'; then
  echo "DEFECT: '+ 10' was parsed into the last else branch of the else-if chain"
  present=0
fi
OUT2="$("$BIN" run --dump-core "$W/b/main.gom" 2>&1)"
echo "$OUT2" | head -5
if echo "$OUT2" | grep -q 'Types are not equal: TInt32 and TBool'; then
  echo "DEFECT: valid program rejected because '* k == k' was parsed into the else branch"
  present=0
fi
exit $present
