#!/usr/bin/env bash
# Run from the repository root. Exit 0 = defect present.
set -u
HERE="$(cd "$(dirname "${BASH_SOURCE[0]}")" && pwd)"
ROOT="$(pwd)"
# Set GOML_COMPILER=/path/to/compiler to use an already built binary; otherwise it is built here.
if [ -n "${GOML_COMPILER:-}" ]; then
  BIN="$GOML_COMPILER"
else
  cargo build --offline -q -p compiler 2>/dev/null || cargo build --offline -p compiler || exit 2
  BIN="$ROOT/target/debug/compiler"
fi
W="$(mktemp -d)"; trap 'rm -rf "$W"' EXIT
present=1
for f in control spaced comment_inside; do
  mkdir -p "$W/$f"; cp "$HERE/$f.gom" "$W/$f/main.gom"
  echo "--- $f.gom"
  OUT="$("$BIN" run --dump-core "$W/$f/main.gom" 2>&1)"
  echo "$OUT" | grep -E 'error|inherent#P#P#to_string' | head -3
  eval "OUT_$f=\$OUT"
done
if echo "$OUT_control" | grep -q 'fn inherent#P#P#to_string'; then
  for f in spaced comment_inside; do
    eval "O=\$OUT_$f"
    # no parse / lower diagnostic about the attribute, the derive is simply gone
    if echo "$O" | grep -q 'Method to_string not found' && ! echo "$O" | grep -qi 'attribute\|derive\|error (parser)\|^error: '; then
      echo "DEFECT ($f.gom): attribute accepted by the parser, derive silently dropped"
      present=0
    fi
  done
fi
exit $present
