#!/bin/bash
# Run from the repository root. Exits 0 when the defect is PRESENT.
# Defect: a struct / enum definition with a `dyn Trait` field is emitted as Go, but the Go
# type `dyn__Trait` is only declared when some function body mentions `dyn Trait`.
HERE="$(cd "$(dirname "$0")" && pwd)"
BIN=./target/debug/compiler
[ -x "$BIN" ] || cargo build --offline -p compiler -q || exit 2

status=1
for prog in prog prog2; do
    out="$($BIN run --dump-go "$HERE/$prog/main.gom" 2>&1)"
    if ! echo "$out" | grep -q '^== Go =='; then
        echo "[$prog] program was not accepted:"; echo "$out" | head -5
        continue
    fi
    # Go type names used for a `dyn` field
    used=$(echo "$out" | grep -oE '[A-Za-z_0-9]*dyn__[A-Za-z_0-9]*Show\b' | sort -u)
    for name in $used; do
        if ! echo "$out" | grep -qE "^type $name struct"; then
            echo "[$prog] Go type '$name' is used but never declared:"
            echo "$out" | grep -n "$name"
            status=0
        fi
    done
done
[ $status -eq 0 ] && echo "DEFECT PRESENT: go build would fail with 'undefined: dyn__...Show'"
exit $status
