#!/bin/bash
# Run from the repository root. Exits 0 when the defect is PRESENT.
# Defect: the members of an enum / struct definition are not checked for duplicates; the
# definitions are emitted member by member, so Go sees a type / field / case declared twice.
HERE="$(cd "$(dirname "$0")" && pwd)"
BIN=./target/debug/compiler
[ -x "$BIN" ] || cargo build --offline -p compiler -q || exit 2
status=1

out="$($BIN run --dump-go "$HERE/dup_variant/main.gom" 2>&1)"
if echo "$out" | grep -q '^== Go ==' && [ "$(echo "$out" | grep -cE '^type Stop struct')" -ge 2 ]; then
    echo "[dup_variant] accepted; Go output declares type Stop twice and has two 'case Stop:' clauses:"
    echo "$out" | grep -nE '^type Stop struct|^\s+case Stop:'
    status=0
fi
out="$($BIN run --dump-go "$HERE/dup_field/main.gom" 2>&1)"
if echo "$out" | grep -q '^== Go ==' && [ "$(echo "$out" | sed -n '/^type Point struct/,/^}/p' | grep -cE '^\s+x int32')" -ge 2 ]; then
    echo "[dup_field] accepted; Go struct Point has field x twice:"
    echo "$out" | sed -n '/^type Point struct/,/^}/p'
    status=0
fi
[ $status -eq 0 ] && echo "DEFECT PRESENT: go build would fail with 'Stop redeclared' / 'duplicate case Stop' / 'x redeclared'"
exit $status
