#!/bin/bash
# Run from the repository root. Exits 0 when the defect is present.
set -u
HERE="$(cd "$(dirname "${BASH_SOURCE[0]}")" && pwd)"
BIN=./target/debug/compiler
[ -x "$BIN" ] || cargo build --offline -p compiler >/dev/null 2>&1 || { echo "cannot build compiler"; exit 2; }
W=$(mktemp -d); trap 'rm -rf "$W"' EXIT

# 1. whole-program pipeline: util.gom (no `import B`) names B::Show in a generic bound
cp -r "$HERE/proj" "$W/p"
out=$($BIN run --dump-go "$W/p/main.gom" 2>&1)
echo "$out" | grep -E "^error" | head -5
if echo "$out" | grep -q "not imported"; then echo "whole-program: rejected (defect absent)"; exit 1; fi
echo "$out" | grep -q "func describe__X_B_x3a__x3a_T\|describe" || { echo "no Go emitted?"; exit 1; }
echo "whole-program: ACCEPTED - util.gom used B::Show without importing B"

# 2. separate pipeline: same
mkdir "$W/a"
$BIN build --package B --input "$W/p/B/lib.gom" --interface-path "$W/a" --output "$W/a/B" || exit 2
if ! $BIN check --package Main --input "$W/p/main.gom" "$W/p/util.gom" --interface-path "$W/a" --output "$W/a/Main" 2>"$W/err"; then
  cat "$W/err"; echo "check: rejected (defect absent)"; exit 1
fi
echo "check: ACCEPTED"

# 3. control: the same file naming B::Show in a type position is rejected
cp "$HERE/control/util.gom" "$W/p/util.gom"
ctl=$($BIN run --dump-go "$W/p/main.gom" 2>&1)
if echo "$ctl" | grep -q "package B not imported in package Main"; then
  echo "control (dyn B::Show in a parameter type): rejected with 'package B not imported in package Main'"
else
  echo "control unexpectedly accepted"; exit 1
fi
exit 0
