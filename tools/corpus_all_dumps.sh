#!/bin/bash
# usage: corpus_all_dumps.sh <repo-a> <repo-b>
# Like corpus_same.sh but compares every dump stage (cst ast hir tast core mono lift anf go) one by one and names the stages that differ.
A=$1; B=$2
cd "$A/crates/compiler/src/tests" || exit 2
n=0; d=0
for f in pipeline/*/main.gom package/*/main.gom; do
  n=$((n+1))
  for st in cst ast hir tast core mono lift anf go; do
    a=$("$A/target/debug/compiler" run --dump-$st "$f" 2>&1 | grep -v "conda\|failed to execute go")
    b=$("$B/target/debug/compiler" run --dump-$st "$f" 2>&1 | grep -v "conda\|failed to execute go")
    if [ "$a" != "$b" ]; then d=$((d+1)); echo "DIFF $f --dump-$st"; fi
  done
done
echo "programs=$n differing-stage-dumps=$d"
