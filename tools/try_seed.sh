#!/bin/bash
# usage: try_seed.sh <patch.diff> <Cxx> [more props...]  - run checks against a scratch worktree with the patch applied (never touches /repo's working tree)
set -u
PATCH=$(readlink -f "$1"); shift
WT=${TRY_WT:-/tmp/try-wt}
V=$(cd "$(dirname "$0")/.." && pwd)
if [ ! -d "$WT" ]; then git -C /repo worktree add -q --detach "$WT" HEAD || exit 2; fi
git -C "$WT" checkout -q -- . && git -C "$WT" clean -fdq -e target
git -C "$WT" checkout -q --detach "$(git -C /repo rev-parse HEAD)"
git -C "$WT" apply "$PATCH" || { echo "patch does not apply"; exit 2; }
mkdir -p /tmp/try-cache /tmp/try-ev
for p in "$@"; do
  (cd "$V" && VERIF_REPO="$WT" VERIF_CACHE=/tmp/try-cache VERIF_EVIDENCE_DIR=/tmp/try-ev ./check "$p" 2>&1 | grep -E "^VIOLATION|^  at|^C[0-9]+ \[|ANALYSIS|RULE-NOT|Traceback|Error")
done
git -C "$WT" checkout -q -- . && git -C "$WT" clean -fdq -e target
