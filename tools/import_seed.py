#!/usr/bin/env python3
"""import_seed.py <ID> <property> <demo_cmd> <needs> -- <breaks>   : copy /tmp/seed-out/<ID> into seeded/<ID> with meta.json"""
import json, os, shutil, sys
sid, prop, demo, needs = sys.argv[1:5]
breaks = " ".join(sys.argv[6:])
src = f"/tmp/seed-out/{sid}"; dst = f"/verif/seeded/{sid}"
if os.path.isdir(dst): shutil.rmtree(dst)
shutil.copytree(src, dst, ignore=shutil.ignore_patterns('testsuite*','*.log','suite*','full_suite*','pristine-pass-list.txt'))
json.dump({"id": sid, "property": prop, "breaks": breaks, "needs": needs, "demo_cmd": demo,
           "source": "independent sub-agent (later round: told which mutations were already taken) given only the property text and a scratch worktree"},
          open(f"{dst}/meta.json", "w"), indent=1)
print("imported", sid)
