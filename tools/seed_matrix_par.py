#!/usr/bin/env python3
"""Parallel seed matrix: every seeded patch x every check, in scratch worktrees (never touches /repo's working tree).
usage: seed_matrix_par.py [--workers N] [--own-only]   -> writes seeded/MATRIX.json; removes its worktrees afterwards"""
import json, os, subprocess, sys, glob, shutil, tempfile
from concurrent.futures import ThreadPoolExecutor
V = os.path.dirname(os.path.dirname(os.path.abspath(__file__)))
TMP = os.environ.get("TMPDIR", "/tmp")

def sh(cmd, cwd=None, env=None):
    r = subprocess.run(cmd, shell=True, cwd=cwd, capture_output=True, text=True, env=env)
    return r.returncode, r.stdout + r.stderr

def worker(i, seeds, props, own_only):
    wt = os.path.join(TMP, f"mx-wt-{i}")
    cache = os.path.join(TMP, f"mx-cache-{i}")
    ev = os.path.join(TMP, f"mx-ev-{i}")
    sh(f"git -C /repo worktree remove --force {wt}")
    rc, out = sh(f"git -C /repo worktree add -q --detach {wt} HEAD")
    if rc != 0:
        return {s["id"]: {"error": out} for s in seeds}
    os.makedirs(cache, exist_ok=True); os.makedirs(ev, exist_ok=True)
    env = dict(os.environ, VERIF_REPO=wt, VERIF_CACHE=cache, VERIF_EVIDENCE_DIR=ev)
    res = {}
    try:
        for meta in seeds:
            sid, prop = meta["id"], meta["property"]
            patch = os.path.join(V, "seeded", sid, "patch.diff")
            sh(f"git -C {wt} checkout -q -- . && git -C {wt} clean -fdq -e target")
            rc, out = sh(f"git -C {wt} apply {patch}")
            if rc != 0:
                res[sid] = {"property": prop, "applies": False}; print(sid, "patch does not apply", flush=True); continue
            hit = {}
            for p in ([prop] if own_only else props):
                rc, out = sh(f"./check {p}", cwd=V, env=env)
                keys = [l.split(": ", 1)[1].strip() for l in out.split("\n") if l.startswith("  at ")]
                hit[p] = {"rc": rc, "violations": keys}
            res[sid] = {"property": prop, "applies": True, "detected_by_own_check": hit[prop]["rc"] == 1,
                        "checks": {p: h for p, h in hit.items() if h["rc"] != 0}}
            print(sid, "DETECTED" if hit[prop]["rc"] == 1 else ("INCOMPLETE" if hit[prop]["rc"] == 2 else "MISSED"), hit[prop]["violations"][:2],
                  "| others:", sorted(p for p in hit if p != prop and hit[p]["rc"] != 0), flush=True)
    finally:
        sh(f"git -C /repo worktree remove --force {wt}")
        shutil.rmtree(cache, ignore_errors=True); shutil.rmtree(ev, ignore_errors=True)
    return res

def main():
    n = 4
    if "--workers" in sys.argv:
        n = int(sys.argv[sys.argv.index("--workers") + 1])
    own_only = "--own-only" in sys.argv
    props = [json.loads(l)["id"] for l in open(os.path.join(V, "properties.jsonl"))]
    seeds = [json.load(open(d)) for d in sorted(glob.glob(os.path.join(V, "seeded", "*", "meta.json")))]
    chunks = [seeds[i::n] for i in range(n)]
    res = {}
    with ThreadPoolExecutor(n) as ex:
        for r in ex.map(lambda a: worker(a[0], a[1], props, own_only), enumerate(chunks)):
            res.update(r)
    res = dict(sorted(res.items()))
    json.dump(res, open(os.path.join(V, "seeded", "MATRIX.json"), "w"), indent=1)
    k = sum(1 for r in res.values() if r.get("detected_by_own_check"))
    print(f"{k}/{len(res)} seeds detected by the check of their own property")

if __name__ == "__main__":
    sys.exit(main())
