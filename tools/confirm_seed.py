#!/usr/bin/env python3
"""Confirm a seeded mutation in a scratch worktree of /repo (outside /repo and /verif):
   pristine: demo passes;  mutated: compiles, the 59 baseline tests pass, demo fails.
usage: confirm_seed.py <seed-dir> [--keep-wt]     (seed-dir has patch.diff + meta.json with demo_cmd)
The demo command is run with cwd = worktree root and $D = seed dir."""
import json, os, subprocess, sys, re, shutil
WT = os.environ.get("CONFIRM_WT", "/tmp/confirm-wt")
BASE = json.load(open("/root/.vp/BASELINE.json"))
STABLE = set(BASE["stable_pass"])

def sh(cmd, cwd, env=None, timeout=1800):
    e = dict(os.environ); e["CARGO_NET_OFFLINE"] = "true"
    if env: e.update(env)
    r = subprocess.run(cmd, shell=True, cwd=cwd, env=e, capture_output=True, text=True, timeout=timeout)
    return r.returncode, r.stdout + r.stderr

def ensure_wt():
    head = subprocess.run("git -C /repo rev-parse HEAD", shell=True, capture_output=True, text=True).stdout.strip()
    if not os.path.isdir(WT):
        rc, out = sh(f"git -C /repo worktree add -q --detach {WT} HEAD", "/")
        assert rc == 0, out
    else:
        sh("git checkout -q -- . && git clean -fdq -e target", WT)
        sh(f"git checkout -q --detach {head}", WT)
    return head

def suite(cwd):
    rc, out = sh("cargo test --workspace --no-fail-fast --offline 2>&1", cwd)
    ok = set(); failed = set()
    cur = None
    for line in out.split("\n"):
        m = re.match(r"\s+Running (?:unittests )?(\S+) \(target/debug/deps/([a-z_0-9]+)-", line)
        if m:
            src, binname = m.group(1), m.group(2)
            cur = binname
            continue
        m = re.match(r"test (\S+) \.\.\. (ok|FAILED)", line)
        if m and cur:
            name = m.group(1)
            if cur in ("compiler", "lexer", "parser", "ast", "cst", "diagnostics", "common_defs", "wasm_app"):
                full = f"{cur}::{name}"
            elif cur in ("structs",):
                full = f"parser::{cur}::{name}"
            else:
                full = f"compiler::{cur}::{name}"
            (ok if m.group(2) == "ok" else failed).add(full)
    return ok, failed, out

def main():
    d = os.path.abspath(sys.argv[1])
    meta = json.load(open(os.path.join(d, "meta.json")))
    demo = meta["demo_cmd"]
    head = ensure_wt()
    res = {"repo_head": head}
    rc, out = sh("cargo build --offline -p compiler 2>&1 | tail -3", WT)
    rc, out = sh(demo, WT, {"D": d})
    res["pristine_demo_rc"] = rc
    print("pristine demo rc", rc)
    if rc != 0:
        print(out[-3000:])
    rc, out = sh(f"git apply {d}/patch.diff", WT)
    if rc != 0:
        print("PATCH DOES NOT APPLY", out); res["applies"] = False
    else:
        res["applies"] = True
        rc, out = sh("cargo build --offline --workspace 2>&1 | tail -5", WT)
        res["builds"] = "error" not in out
        rc, out = sh(demo, WT, {"D": d})
        res["mutated_demo_rc"] = rc
        print("mutated demo rc", rc)
        print(out[-1500:])
        ok, failed, log = suite(WT)
        missing = sorted(STABLE - ok)
        res["suite_ok"] = len(ok); res["suite_failed"] = len(failed); res["stable_missing"] = missing
        print("suite ok", len(ok), "failed", len(failed), "stable tests not passing:", missing)
    sh("git checkout -q -- . && git clean -fdq -e target", WT)
    good = res.get("applies") and res.get("pristine_demo_rc") == 0 and res.get("mutated_demo_rc", 0) != 0 and not res.get("stable_missing")
    res["confirmed"] = bool(good)
    meta["confirmation"] = res
    json.dump(meta, open(os.path.join(d, "meta.json"), "w"), indent=1)
    print("CONFIRMED" if good else "NOT CONFIRMED", d)
    if "--rm-wt" in sys.argv:
        sh(f"git -C /repo worktree remove --force {WT}", "/")
    return 0 if good else 1

if __name__ == "__main__":
    sys.exit(main())
