#!/usr/bin/env python3
"""Apply every seeded mutation to /repo, run the check of its property (and optionally all checks), undo, record detection.
usage: seed_matrix.py [--all-checks]   -> writes seeded/MATRIX.json"""
import json, os, subprocess, sys, glob
V = os.path.dirname(os.path.dirname(os.path.abspath(__file__)))
def sh(cmd, cwd=None):
    r = subprocess.run(cmd, shell=True, cwd=cwd, capture_output=True, text=True)
    return r.returncode, r.stdout + r.stderr
def main():
    allc = "--all-checks" in sys.argv
    rc, out = sh("git -C /repo status --porcelain")
    if out.strip():
        print("refusing: /repo has local changes"); return 2
    props = [json.loads(l)["id"] for l in open(os.path.join(V, "properties.jsonl"))]
    res = {}
    for d in sorted(glob.glob(os.path.join(V, "seeded", "*", "meta.json"))):
        meta = json.load(open(d))
        sid = meta["id"]; prop = meta["property"]
        patch = os.path.join(os.path.dirname(d), "patch.diff")
        rc, out = sh(f"git -C /repo apply {patch}")
        if rc != 0:
            res[sid] = {"property": prop, "applies": False}; print(sid, "patch does not apply"); continue
        try:
            hit = {}
            for p in (props if allc else [prop]):
                rc, out = sh(f"./check {p}", cwd=V)
                keys = [l.split(": ", 1)[1].strip() for l in out.split("\n") if l.startswith("  at ")]
                hit[p] = {"rc": rc, "violations": keys}
            res[sid] = {"property": prop, "applies": True, "detected_by_own_check": hit[prop]["rc"] == 1,
                        "checks": {p: h for p, h in hit.items() if h["rc"] != 0}}
            print(sid, "DETECTED" if hit[prop]["rc"] == 1 else ("INCOMPLETE" if hit[prop]["rc"] == 2 else "MISSED"), [k for k in hit[prop]["violations"]][:2])
        finally:
            sh("git -C /repo checkout -- .")
    json.dump(res, open(os.path.join(V, "seeded", "MATRIX.json"), "w"), indent=1)
    n = sum(1 for r in res.values() if r.get("detected_by_own_check"))
    print(f"{n}/{len(res)} seeds detected by the check of their own property")
if __name__ == "__main__":
    sys.exit(main())
