#!/bin/bash
# usage: import_round.sh <Cxx> <s> <t>   - import /tmp/s10/out-Cxx/{1,2} as seeded/Cxx-<s>, seeded/Cxx-<t> (meta from NOTES.md heading)
P=$1; A=$2; B=$3
mkdir -p /tmp/seed-out
for k in 1 2; do
  id=$P-$([ $k = 1 ] && echo $A || echo $B)
  rm -rf /tmp/seed-out/$id; cp -r /tmp/s10/out-$P/$k /tmp/seed-out/$id
  head1=$(grep -m1 -v '^\s*$' /tmp/seed-out/$id/NOTES.md | sed 's/^#* *//')
  python3 /verif/tools/import_seed.py $id $P 'bash $D/demo.sh' "see NOTES.md" -- "$head1"
  python3 - "$id" <<'PY'
import json,sys
p=f"/verif/seeded/{sys.argv[1]}/meta.json"; m=json.load(open(p))
m["source"]="independent sub-agent, blind round 10: given only the property record, a scratch worktree and a file to start reading in"
json.dump(m,open(p,"w"),indent=1)
PY
done
