#!/bin/bash
# usage: first_try.sh <root-with-<id>/patch.diff> <out-dir> [workers] [id ...]
# Runs all 20 quick checks against each patch in its own scratch worktree (never /repo's working tree) and writes <out-dir>/<id>.txt;
# prints one line per patch: the properties whose check raised a VIOLATION.  Used for the honest first-try record of a round.
V=$(cd "$(dirname "$0")/.." && pwd)
ROOT=$(readlink -f "$1"); OUT=$2; W=${3:-6}; shift 3 2>/dev/null
mkdir -p "$OUT"
one() {
  id=$1; V=$2; ROOT=$3; OUT=$4
  TRY_WT=/tmp/ft-wt-$id "$V/tools/try_seed.sh" "$ROOT/$id/patch.diff" C01 C02 C03 C04 C05 C06 C07 C08 C09 C10 C11 C12 C13 C14 C15 C16 C17 C18 C19 C20 > "$OUT/$id.txt" 2>&1
  git -C /repo worktree remove --force /tmp/ft-wt-$id 2>/dev/null
  props=$(grep -E '^VIOLATION' "$OUT/$id.txt" | sed -E 's/.*property=(C[0-9]+).*/\1/' | sort -u | tr '\n' ' ')
  bad=$(grep -E 'does not apply|Traceback|ANALYSIS-INCOMPLETE' "$OUT/$id.txt" | head -2 | tr '\n' ' ')
  echo "$id: ${props:-none} $bad"
}
export -f one
if [ $# -gt 0 ]; then ids="$*"; else ids=$(ls "$ROOT"); fi
for i in $ids; do [ -f "$ROOT/$i/patch.diff" ] && echo $i; done | xargs -P "$W" -I{} bash -c 'one {} '"$V $ROOT $OUT"
