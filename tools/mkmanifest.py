#!/usr/bin/env python3
"""Regenerate MANIFEST.json from the table below (claimed checks) + properties.jsonl."""
import json, os
V = os.path.dirname(os.path.dirname(os.path.abspath(__file__)))

NOTE = ("Trusted base: rustc nightly front end + MIR (E1 facts come from the real `cargo check` of the workspace, dev profile, "
        "default features), syn 2 parser (E2), the Python rule layer and its hand-confirmed ledgers. Decides structural "
        "necessary conditions on /repo's current source; does not execute goml programs or emitted Go.")

# clauses added after the second seeding round and from defects the seeding agents ran into (appended to the level text)
EXTRA = {
 "C03": "Also decided: substitution resolves completely (TVar arms that read the union-find re-apply themselves), the type scheme a call "
        "site instantiates carries the declared trait bounds (known finding), a child expression is type-checked by one loop per path.",
 "C04": "Also decided: guarded indexing in the byte scanners, a dependency missing at link is an error before the back end, look-ahead "
        "loops draw no stuck-parser fuel, `go f` on a plain function value and doubled type-checking work (shared clauses).",
 "C06": "Also decided: case-splitting functions copy unconstrained rows to every sub-matrix, destructuring-let matrices end with a failure "
        "row, and a bare identifier pattern is classified against the constructors of the whole package, not of one file.",
 "C08": "Also decided: types of rebuilt nodes in closure conversion come from the converted children, lift.rs's closure-type predicates "
        "descend through every type former (known findings TVec/TRef), `go` accepts a plain function value.",
 "C09": "Also decided: the effect-position emitter decides every ANF form explicitly and emits a statement for every call form.",
 "C10": "Also decided: a literal is range-checked and defaulted at one type, float literals keep a fractional form in Go (known finding), "
        "literals stored in an `any` slot carry their type, the unsuffixed integer pattern is built at its recorded type, two-literal "
        "operands are not Go constant expressions (known finding).",
 "C11": "Also decided: type lowering is form-preserving; the argument vector of one call is handed on whole.",
 "C12": "Also decided: Parser::eof does not depend on the stuck-parser fuel; every grammar loop makes progress (shared with C04).",
 "C13": "A sort counts as canonical only if its key is injective (no lossy function in sort_by_key/sort_by closures).",
 "C14": "Also decided: every package's exports and code are merged unconditionally in both pipelines; one canonical source-file order; "
        "both pipelines type-check against the imports' environments only; floats in artifacts round-trip (serde_json float_roundtrip).",
 "C15": "Deserialisation sites are searched in the library and in the CLI.",
 "C17": "Also decided: static and dyn call forms are both emitted in effect position; call arguments are type-checked once (a second "
        "pass records the dyn coercion twice).",
 "C18": "Also decided: sibling derive entry points reject the same definitions; one obligation per field-type form; any Go formatting "
        "verb in the JSON string encoder is a violation.",
 "C19": "Also decided: fresh names carry the generator's own counter; the entry-function test compares whole names.",
 "C20": "Also decided: invariants the site ledger rests on (non-empty paths before `.expect`) are checked structurally; recorded types "
        "are fully resolved (shared with C03).",
}

# clauses added in the defect-hunt round (DESIGN.md sections 4a / 5a); appended after EXTRA
HUNT = {
 "C01": "Hunt round: vec_push must not be a bare append on the argument slice (known finding).",
 "C02": "Hunt round: helper-type collector starts from the emitted definitions; the import pruner searches type aliases; no type switch on a "
        "variable an enclosing switch rebound at a struct type; result-less extern calls are never used as Go values.",
 "C03": "Hunt rounds: annotations on lets and closure parameters and the types of trait signatures are validated; every declared type "
        "parameter (function, method, impl) occurs in the signature; a Core let is typed by its body; no field name is special-cased; "
        "the receiver of Tr::m(recv, ..) is inferred once.",
 "C04": "Hunt round: the lookup layer calls partial helpers only through a ledger; no arm of compile_expr is an unconditional panic; parse "
        "errors of non-entry files are located in their file; the instance work list is bounded (known finding).",
 "C05": "Hunt round: parameter slots keep the ids minted for them; local binders are consulted before constructors.",
 "C06": "Hunt round: case bodies of a rebinding type switch resolve nested switches on the rebound name.",
 "C07": "Hunt round: a generic function used as a value is specialised; undetermined type parameters are rejected; specialisation is bounded "
        "(known finding: polymorphic recursion); retained definitions and trait signatures are specialised; impl-level parameters are checked.",
 "C08": "Hunt round: callee signatures are final before callers are lifted; closure arguments are matched against function-typed parameters "
        "(both known findings).",
 "C10": "Hunt round: one literal operand / a literal under a unary operator is not a Go constant expression (known findings).",
 "C11": "Hunt round: a call binds under a prefix operator; CRLF = LF for multi-line strings; `t.1.0` is two projections.",
 "C13": "Hunt round: input files are ordered and de-duplicated by file identity.",
 "C14": "Hunt round: one package order and one file order for both pipelines; no import skipped; the same entry-point check; check and build "
        "are compared by what they do, not by frozen text.",
 "C15": "Hunt round: trait bounds belong to the hashed scheme (known finding, shared with C03).",
 "C16": "Hunt rounds: one definition per function / inherent method / type / trait name (extern declarations included); the separate "
        "pipeline skips no import; an extern type keeps its Go name; the package-mismatch test has no exemptions.",
 "C17": "Hunt round: an expression coerced to dyn is recorded at its own type; one definition per method name; the dyn wrapper's impl name and "
        "overlapping exact/generic impls (known findings).",
 "C18": "Hunt round: every scalar leaf is rendered by a builtin that exists.",
 "C19": "Hunt round: variant struct names are compared with enum and struct names.",
 "C20": "Hunt round: completions after the dot are filtered on the receiver parameter and do not dereference; the query index is keyed per "
        "file (known finding).",
}

# clauses added after seeding round 6 (seeded/ROUNDS.md); appended after HUNT
ROUND6 = {
 "C01": "Round 6: every rewriting pass fills each rebuilt sub-term field from a call of the traversal; an arm that returns early has moved "
        "its translated sub-terms into a value; the precedence table (shared with C11).",
 "C02": "Round 6: the Go-level rewrites (known-variant selection, DCE) recurse into every nested block.",
 "C03": "Round 6: argument-type lists of every call form reach a constraint as a function type (arity); literal forms the builder types by a "
        "fixed type have no checking rule of their own.",
 "C04": "Round 6: the solver never claims progress while re-queueing the constraint it looks at; forms compile_cexpr refuses never reach it; "
        "grammar markers are closed exactly once on every path (shared with C12).",
 "C05": "Round 6: a function body is resolved in an environment created in its resolver; only one-segment paths name locals; one pattern or "
        "parameter list binds a name once (repaired defect).",
 "C06": "Round 6: the gate after the match compiler tests the match compiler's diagnostics; a literal pattern is range-checked at the type it is built at.",
 "C07": "Round 6: definitions are instantiated before nested applications are collapsed; type parameters are substituted simultaneously; every "
        "arm that computes a specialised node's type yields a substituted type.",
 "C08": "Round 6: both registrations of a closure's apply function carry the generated function's type; closure types are fully specialised.",
 "C09": "Round 6: no early return of a pass arm leaves an already translated sub-term behind.",
 "C10": "Round 6: numeric literal text is prepared identically wherever it is parsed; *_to_string helpers never convert to a fixed width; a loop body is unit.",
 "C11": "Round 6: EXPR_FIRST contains every token that starts an expression; only a tuple type is split into function-type parameters.",
 "C12": "Round 6: cursor and tree builder skip tokens by is_trivia alone; marker typestate over the whole grammar.",
 "C14": "Round 6: serialised artifacts contain no hash-ordered container (shared with C13); the whole-program loader skips no file.",
 "C15": "Round 6: artifact writes are unconditional; no hash-ordered container feeds the interface hash (shared with C13).",
 "C16": "Round 6: the locality test of inherent impls is unconditional; every pinned interface hash is compared at link (shared with C15).",
 "C17": "Round 6: every cross-package impl search asks the current package and all dependencies; resolved trait names are never discarded.",
 "C18": "Round 6: a generated body reads its receiver once; integer leaves are rendered at their own width (shared with C10).",
 "C19": "Round 6: a binder named like a variant stays a binder in call position (shared with C05).",
 "C20": "Round 6: the method filter rejects functions without parameters; byte scanning of the textual fallbacks is bounds-guarded (shared with C04).",
}

# clauses added for the reports of hunt round 3 and the late repairs of round 2 (DESIGN.md 5b / 5c); appended after ROUND6
HUNT3 = {
 "C01": "Hunt round 3: can_cast and cast of the CST wrappers agree (an `if` between items is reported); control characters in strings are escaped.",
 "C02": "Hunt round 3: dyn types mentioned only by definitions are declared; members are unique per definition; the entry point takes no "
        "parameters; Self stays inside trait signatures; strings are valid Go source text; extern functions as values (known finding).",
 "C04": "Hunt round 3: lowering and derive errors of non-entry files are located in their file.",
 "C05": "Hunt rounds 2-3: a binder named like a struct stays a binder.",
 "C06": "Hunt rounds 2-3: field-syntax forms resolve among structs first; a pattern variable named like a struct is bound.",
 "C07": "Hunt round 3: trait signatures are specialised only when Self is the receiver alone.",
 "C11": "Hunt round 3: arguments handed down to a projection are applied; a qualified name after `.` is reported; can_cast = cast.",
 "C12": "Hunt round 3: diagnostics of non-entry files carry positions resolved in their own text (shared with C04).",
 "C14": "Hunt rounds 2-3: check runs every rejecting stage build runs; both pipelines check the entry point's signature.",
 "C16": "Hunt rounds 2-3: import cycles are named by check, build and link; acceptance does not depend on item or file order; trait bounds are import-checked.",
 "C19": "Hunt round 3: variant struct names avoid function and extern type names.",
 "C20": "Hunt rounds 2-3: hover accepts the node a shorthand field is recorded under; can_cast and cast agree on what an expression is.",
}

# clauses added after seeding round 7 (seeded/ROUNDS.md); appended after HUNT3
ROUND7 = {
 "C01": "Round 7: a continuation is lowered in the mode of the lowering it belongs to; branch statements stay inside their If; every sub-term is "
        "translated before an early return; name lookup order (shared with C05).",
 "C02": "Round 7: a loop body is unit, so effect position holds no bare expression statement (shared with C03).",
 "C03": "Round 7: pattern constraints are pushed on every path; trait calls find the implementation they run (shared with C17).",
 "C04": "Round 7: ill-typed patterns cannot pass the typer; type decomposers are applied to their own kind.",
 "C05": "Round 7: only the variant set makes an identifier pattern a constructor; package definitions come before by-name intrinsics.",
 "C06": "Round 7: no rebuilding loop of the match compiler or Go DCE leaves early or skips a clause.",
 "C07": "Round 7: the generic-method index holds generic definitions only; unification sees substituted use types.",
 "C08": "Round 7: locals of the conversion scope are typed from their scope entry; generic functions as values are specialised at substituted types.",
 "C09": "Round 7: branch statements are confined to their If; nothing is dropped before an early return.",
 "C10": "Round 7: associativity of * and / (shared with C11); an arithmetic node never returns one operand in place of the operation.",
 "C11": "Round 7: look-ahead and cursor skip the same tokens; a closure literal callee is lowered on its own (known finding: an empty argument list handed down is lost).",
 "C12": "Round 7: only the end of input ends the top-level loop; parser panic sites are ledgered (shared with C20).",
 "C13": "Round 7: no static item of the workspace holds mutable state.",
 "C14": "Round 7: no successful exit of build before its artifacts are written; every pinned hash compared (shared with C15).",
 "C15": "Round 7: input files are sorted and de-duplicated by identity (shared with C13).",
 "C16": "Round 7: the refusal of an import back rests on the dependency's deps alone.",
 "C17": "Round 7: ambiguity is decided on the unfiltered candidate list; Self is instantiated under every type former (shared with C07).",
 "C18": "Round 7: the field-less struct has a rendering of its own.",
 "C19": "Round 7: derive-invented binders stay outside the user name space (shared with C18); a user function named like an intrinsic is not captured.",
 "C20": "Round 7: the derive-expanded AST is what the query pipelines type-check.",
}

ROUND8 = {
 "C01": "Round 8: operands keep their positions through shadowing lets; runtime print helpers take their text as data; no rebuilding loop of the term passes filters its elements.",
 "C02": "Round 8: the Go printer never breaks a line before an operator; a call result that contains a closure is retyped (shared with C08).",
 "C03": "Round 8: the equation with the expected type is unconditional; generic functions as values name existing instances (shared with C07).",
 "C04": "Round 8: the dyn-dispatch predicate leaves the receiver out, so vtable signature types are collected.",
 "C05": "Round 8: patterns are resolved in let and match arms only; a nested scope starts from all binders of its parent, newest first.",
 "C06": "Round 8: no component of a tuple scrutinee is filtered away; string patterns lose exactly their delimiters (shared with C11).",
 "C07": "Round 8: a typed function has its own type parameters in scope; mono's unification compares every component unconditionally.",
 "C08": "Round 8: packages are linked dependency-first (shared with C14); a go statement in value position keeps its mode (shared with C01).",
 "C09": "Round 8: a translated child is used once, never cloned; no statement of a block is left out of the let chain.",
 "C10": "Round 8: checker and builder read a literal at one type; operators are rebuilt as themselves in every pass.",
 "C11": "Round 8: number tokens are unsigned; the primary-form parser is entered from the Pratt loop only.",
 "C12": "Round 8: token splitting and trivia attachment (existing lossless-tree clauses reported both seeds).",
 "C13": "Round 8: hash-ordered containers on output paths (existing clause reported both seeds).",
 "C14": "Round 8: check and build run the match compiler in the same environment; an interface hash is filed under its own package.",
 "C15": "Round 8: no serde default on the fields of the artifact units: a missing header is a parse error.",
 "C16": "Round 8: every import test that gives up reports; impls are filed under the resolved trait name.",
 "C17": "Round 8: replacing an operator constraint counts as solver progress; mono's unification compares results unconditionally (shared with C07).",
 "C18": "Round 8: the derive attribute's bracket is sought from the front; struct patterns name structs (shared with C06).",
 "C19": "Round 8: struct, enum and extern type names share one duplicate test; match arms have scopes of their own (shared with C05).",
 "C20": "Round 8: nodes built per element get pointers of their own; completion asks about the namespace as written.",
}

# clauses added after the blind seeding round 9 (seeded/ROUNDS.md); appended after ROUND8
ROUND9 = {
 "C01": "Round 9: a `continue` on the way to a nested accumulating push skips the element (shared with C06, C09).",
 "C02": "Round 9: string escapes are spelled in Go's syntax, never with Rust's escape iterators (shared with C11).",
 "C03": "Round 9: the equation between a callee's type and the call-site function type holds on every path; unify takes apart fully normalised operands.",
 "C04": "Round 9: typed nodes whose diagnostics the CLI resolves against the entry file's text carry no syntax pointer; occurs is handed normalised types.",
 "C05": "Round 9: nothing between lexer and typed program asks a letter-case question about a name.",
 "C06": "Round 9: no letter-case question decides constructor or binder (shared with C05).",
 "C07": "Round 9: key and substitution of a type instance are built from one argument list.",
 "C08": "Round 9: tuples and lets never keep their pre-conversion type on any branch; a child-listing traversal the capture walk delegates to is audited like the walk.",
 "C09": "Round 9: every literal arm becomes a case clause (no skip before a nested push).",
 "C10": "Round 9: the parsed float value is range-tested whatever the literal's type; float32 text is parsed at f32 (resolved generic call).",
 "C11": "Round 9: the multi-line string scanner removes the line terminator and nothing else; escapes are Go escapes.",
 "C13": "Round 9: the key read_source_files sorts by is the resolved file (shared with C14).",
 "C14": "Round 9: de-duplicating by file and sorting by spelling is not a canonical order.",
 "C17": "Round 9: in mono, lift and anf a vtable call is built only from a vtable call.",
 "C20": "Round 9: an on-demand scan of the HIR tables keeps the last id recorded for a syntax pointer, like the maps it replaces.",
}

# clauses added after the second blind round 10 (agents given a file to start reading in; seeded/ROUNDS.md); appended after ROUND9
ROUND10 = {
 "C01": "Round 10: a function of a rewriting pass that is handed a sub-term looks at it before it returns; string_len and string_get count in one unit; the Go emitter filters nothing it has built.",
 "C02": "Round 10: a shortcut in front of the keyword table is evaluated on all 25 keywords; a name ledger entry excuses one provenance, not a slot; tuple-bound names are followed per component.",
 "C03": "Round 10: a position found by searching one list indexes that list only; type parameters are substituted simultaneously also where the loop is a fold.",
 "C04": "Round 10: Parser::eof costs no stuck-parser fuel; ast::lower never clones a lowered expression; a byte column is never converted as a wide column.",
 "C05": "Round 10: every look-up in the function table sits in an arm for a non-local resolution; the capture walk visits every sub-term (shared with C08).",
 "C06": "Round 10: no filtering or shortening call on a goast-typed collection in the Go emitter (resolved calls, expected zero).",
 "C07": "Round 10: the inherent-method index keeps generic definitions only, also when it is collected from an iterator chain; folds are loops for the simultaneity rule.",
 "C08": "Round 10: the Go type of a field read comes from the final definition, not from the node; no closure literal is answered from another occurrence's record.",
 "C10": "Round 10: literal nodes are built where the literal token is read only; no cast in a single-width arm loses values of that width; string helpers count in one unit.",
 "C11": "Round 10: the multi-line string rule follows the CST accessors; no letter-case question in the front end (shared with C05).",
 "C12": "Round 10: no wide-to-byte column conversion beside LineIndex::line_col (resolved calls).",
 "C14": "Round 10: a fact recomputed from a type when an artifact is read back is computed by a complete traversal (R07.2 over the artifact layer).",
 "C17": "Round 10: impl names built by the expression compiler take the receiver's type, never a type from the impl table; trait and type are rendered in full (shared with C19).",
 "C19": "Round 10: gensym prefixes chosen by a helper or a match are followed; a function type's name delimits its parameter list; shortcuts in the keyword test are evaluated.",
 "C20": "Round 10: the type traversals of typer/results.rs (what hover reads) are audited like the solver's.",
}

# clauses added after the third blind round 11 (first slip + a cooperating-site change in another file; seeded/ROUNDS.md); appended after ROUND10
ROUND11 = {
 "C01": "Round 11: no new reversal, swap or sort in the term-handling code (resolved calls, per-file budgets); analysis walkers visit a sub-term whatever its shape; link order and interface pins (shared with C14, C15).",
 "C02": "Round 11: every statement walker of the Go back end with a catch-all names each block-carrying form; liveness walkers visit every sub-term; the Go spelling of a renamed local and of a Ref struct (known findings); link order and pins (shared).",
 "C03": "Round 11: an arm of check_expr that stamps the expected type on a node hands that type to the check of a value-producing child.",
 "C04": "Round 11: a formatter that keeps the diagnostics of one stage is handed that stage's error variant only (no error is emptied on its way out).",
 "C05": "Round 11: the set that turns an identifier pattern into a constructor is recognised by what fills it (insertions under the enum arm).",
 "C06": "Round 11: the rewriter that resolves nested type switches reaches every block-carrying statement; no new reordering in compile_match.rs.",
 "C07": "Round 11: impl function names keep every component whole also through helpers (shared with C17).",
 "C08": "Round 11: the capture walk visits a sub-term whatever its shape (no descent under a test of the child's own form).",
 "C09": "Round 11: no new reversal, swap or sort of a sequence in the term-handling code; effect walkers of the Go dead-code pass visit every sub-term.",
 "C10": "Round 11: every EPrim of the checker and of the TAST builder is built in the arm that reads the literal (two readers of one literal).",
 "C11": "Round 11: trivia between two tokens is skipped by a loop, never by a single step.",
 "C13": "Round 11: each ledgered hash iteration states a reason that is evaluated on the syntax (unique-or-none, cardinality-only, single-or-report).",
 "C14": "Round 11: the loop around the interface pins ranges over every linked unit (shared with C15).",
 "C15": "Round 11: a core file's own format_version / compiler_abi are tested, not only those of the interface embedded in it; the pin loop ranges over every linked unit.",
 "C17": "Round 11: name constructors are followed into their helpers; a numeric literal boxed into dyn keeps its type (shared with C10).",
 "C18": "Round 11: a derived method clashes with a hand-written one like any inherent method (shared with C17).",
 "C19": "Round 11: the Go spelling of a renamed local stays outside the identifier grammar and generated type names keep letter case (two known findings); impl names whole (shared with C17).",
}

# clauses added after round 12 (ten cooperating-site seeds; seeded/ROUNDS.md); appended after ROUND11
ROUND12 = {
 "C03": "Round 12: every recursive yes/no question about a type combines the answers for the children with one connective (13 predicates).",
 "C04": "Round 12: the occurs check answers for every component of a type (one connective per recursive predicate, shared with C03).",
 "C07": "Round 12: the type printer behind ty_compact - the text every instance is named by - renders every component of every former and shortens no list; genericity predicates use one connective.",
 "C08": "Round 12: the renamer that respells locals for Go visits every operand (shared with C01).",
 "C10": "Round 12: the width-generic literal parsers are read with the helpers they call and with their signature (a bound TryFrom<i64> is a fixed-width intermediate).",
 "C11": "Round 12: literals are parsed at their own width also through helpers (shared with C10).",
 "C14": "Round 12: the dependency walk that orders the cores reads an edge list every producer of a package unit fills.",
 "C15": "Round 12: no hash-ordered iteration reaches an ordered sink in the front end - the interface hash is a function of the sources (shared with C13).",
 "C19": "Round 12: the rendering behind every instance and impl name is complete (shared with C07).",
}

CLAIMED = {
 "C01": dict(
   text="Semantic preservation is NOT decided. Decided on every arm of every pass: pass totality (no catch-all over the input IR, anchor "
        "passes found with full coverage), no sub-term dropped, field homomorphism (no swapped branches/operands/arguments where a "
        "variant is rebuilt), CST->AST lowering never loses an optional sub-tree silently, plus the evaluation-order and first-match "
        "clauses shared with C09/C06. These are necessary conditions visible in the shape of the code.",
   technique="static analysis: variant-coverage audit of IR traversals, child-use and def-use homomorphism rules on match arms, None-path summary",
   ref="DESIGN.md section 4, C01"),
 "C06": dict(
   text="Static decision of the match compiler's order/fallback discipline: rows are never permuted (resolved callees), literal buckets are "
        "insertion-ordered and seeded from the fallback rows, rows that do not constrain the column go unconditionally to every bucket, "
        "fallback and default (int/string siblings agree), empty row sets fail, result type is threaded, scrutinee compiled once, struct "
        "pattern elaboration follows declaration order. The decision tree's correctness for a given matrix is not decided.",
   technique="static analysis: resolved-callee whitelist on row vectors, sibling cross-check of push tables, guard/shape rules",
   ref="DESIGN.md section 4, C06"),
 "C07": dict(
   text="Static decision of the type-level machinery of specialisation: the instantiation unifier has a diagonal arm for every "
        "monomorphic type former, every structural traversal of Ty (auto-discovered: self-recursive, descends into >=2 formers) handles "
        "every child-carrying former explicitly and uses every child, the genericity/substitution anchors are structural, instances are "
        "keyed by a sorted substitution and looked up before creation, and a call's substitution uses arguments and result type. "
        "Termination and behavioural equality of instances are not decided.",
   technique="static analysis: variant-coverage audit (diagonal coverage for pair matches) over auto-discovered type traversals, guard/order shape rules",
   ref="DESIGN.md section 4, C07"),
 "C08": dict(
   text="Whether a function value that flows through data structures, branches or arguments stays callable is NOT decided (flow-dependent, "
        "type-directed conversion). Decided are capture-bookkeeping facts: the free-variable walk has no catch-all and visits every sub-term, "
        "its bound stack is paired, every positional index comes from enumerate() over the full unfiltered collection, and environment "
        "fields / creation arguments / rebinding lets derive from one ordered collection.",
   technique="static analysis: child-use rule on the capture walk, adaptor-chain rule for positional enumerate(), pairing",
   ref="DESIGN.md section 4, C08"),
 "C09": dict(
   text="Static decision of where evaluation order is fixed: continuation nesting in ANF follows the declaration order of children, "
        "logical operators' rhs must not be hoisted, branches and loop parts keep their own region (ANF and compile_while), DCE's effect "
        "predicates are total and count acting/failing forms, `go` spawns once. Goroutine interleavings are not decided.",
   technique="static analysis: continuation-nesting (syntactic dominance) rule, def-use into the loop body, coverage audit of effect predicates",
   ref="DESIGN.md section 4, C09"),
 "C02": dict(
   text="Go validity of the unbounded output language is NOT decided (it needs a Go type checker on outputs). Decided: builtin <-> runtime "
        "table agreement, the failure helper's result type vs its use, totality of the type mapping and of the structured Go type printer "
        "over every type former, call-only builtins must not be values, the import qualifier and DCE's import binding select the same path "
        "segment, and Go type declarations are collected through every type former.",
   technique="static analysis: table agreement, variant-coverage audit of type printers/mappers, sibling cross-check (path segment selector)",
   ref="DESIGN.md section 4, C02"),
 "C03": dict(
   text="Static decision of the gates and of the unifier/pattern plumbing: has_errors() gates between every diagnostics-producing stage and "
        "the next stage or Ok result, resolver diagnostics merged, Typer::unify (occurs-before-bind, all diagonals, arity before zip, tested "
        "recursive results, rejecting catch-all), typer-side Ty traversals handle every former, unresolved variables reported, the array "
        "wildcard confined to parameters, every pattern form constrains the scrutinee, substitutions use the result type. The typing rules "
        "themselves (constraint generation) are not decided.",
   technique="static analysis: stage-event ordering (must-pass-through gate), coverage audit of the unifier and type traversals, expected-type plumbing rule",
   ref="DESIGN.md section 4, C03"),
 "C04": dict(
   text="Whole-pipeline panic freedom is not decided. Decided: every grammar loop makes progress (abstract interpretation of the parser's "
        "functions over token-set states with function summaries; FIRST sets checked against the arms they guard), assert preconditions "
        "are guarded at every call site, the package/artifact layer maps I/O and JSON failures to diagnostics, the lookup layer (typer, "
        "env) has no explicit panic site, and the occurs check handles every type former.",
   technique="static analysis: abstract interpretation (must-advance) of the recursive-descent parser + who-may-call on resolved panic sites (MIR)",
   ref="DESIGN.md section 4, C04"),
 "C05": dict(
   text="Static decision of the scoping discipline in the two places that implement lexical scope: the scope constructs are derived "
        "from where the typer opens scopes; for each the AST->HIR resolver must resolve the scoped children in a child environment "
        "(per arm for alternatives); lookup is newest-first and locals precede globals; scope open/close calls are paired in one "
        "block with no early exit; per-arm pattern binding is scoped inside the loop. Necessary conditions for lexical scoping; "
        "acceptance/rejection of concrete programs is not executed.",
   technique="static analysis: syntax-tree rules over match arms (environment threading), pairing on all exits, sibling agreement resolver/typer",
   ref="DESIGN.md section 4, C05"),
 "C14": dict(
   text="Behavioural equality of the two pipelines is not decided. Decided by sibling cross-checks: compile and link_cores share one back-end "
        "skeleton (stage order, wiring, one Gensym) and both concatenate packages in topological order; check_package and build_package "
        "derive the interface identically; both gate on the same merged diagnostics; pre-link and post-link gensym prefixes are disjoint. "
        "Weak by nature: these are necessary conditions only.",
   technique="static analysis: sibling cross-check of call skeletons and derived values, loop provenance (topological order), prefix-set disjointness",
   ref="DESIGN.md section 4, C14"),
 "C17": dict(
   text="Static decision of the naming/dispatch plumbing shared by the call forms: impl-function names are built only by the two constructors, "
        "which use every parameter whole and agree with the reader; all call sites pass (trait, type, method) in the same roles; dyn coercion "
        "is dominated by the visible-impl test; the overload solver treats none/many as errors; vtable dispatch of a static call requires the "
        "receiver's dyn trait to be the named trait. Equality of the dispatch paths' results is not decided.",
   technique="static analysis: who-may-construct on string prefixes, parameter-use rule, guard-dominates-construction",
   ref="DESIGN.md section 4, C17"),
 "C18": dict(
   text="Static decision of the derive expander's dispatch: encoder choice must decide every field type explicitly, the JSON string leaf must "
        "be a JSON encoder, synthesised binders are outside the identifier grammar, the ToJson and ToString families do not reach each "
        "other's renderer (call/function-value reachability), and derives are looked up per attribute. Faithfulness for all values is not decided.",
   technique="static analysis: variant-coverage audit, reachability over function mentions, closure-nesting rule, literal scan",
   ref="DESIGN.md section 4, C18"),
 "C15": dict(
   text="Static decision of the artifact discipline: hash view = interface fields (table agreement), no serde attribute hides data of "
        "reachable types, no body type is reachable from the hashed exports, every deserialised artifact is validated (hash + "
        "format/ABI constants) before it escapes, link compares every (package, dependency) pin and rejects before merging, pins come "
        "from the loaded unit, and every core field read by the linker is validated. Histories of edits are not executed.",
   technique="static analysis: table agreement + type reachability (MIR ADT facts) + must-validate-before-use on resolved deserialisation sites + loop-shape/taint rule",
   ref="DESIGN.md section 4, C15"),
 "C16": dict(
   text="Static decision of the isolation and coherence gates: every user-written qualified path is import-checked where it is "
        "converted (resolved conversion sites), graph errors (cycle, missing import, name mismatch, mixed directory) return Err, the "
        "impl table is written only behind the orphan and duplicate tests, project-wide merges test for cross-package duplicates "
        "first, and a package's type-check sees only the environments of its own imports. Necessary conditions; sufficiency over "
        "all package graphs is not decided.",
   technique="static analysis: who-may-call on resolved callees (MIR) + must-check-after-conversion + guard-dominates-insert + loop provenance",
   ref="DESIGN.md section 4, C16"),
 "C10": dict(
   text="Go's arithmetic itself is outside the repository. Decided: every single-width match arm in all crates is width-consistent "
        "(~400 arms), signed/unsigned literals use the matching parser and the generic parse helpers have no fixed-width intermediate, the "
        "operator chain lexeme -> token -> syntax kind -> BinaryOp -> Go operator -> printed text is the identity, printf verbs fit the Go "
        "type, and the lexer's suffix regexes are a bijection with the numeric widths.",
   technique="static analysis: width-tag consistency lint over match arms + table extraction and composition",
   ref="DESIGN.md section 4, C10"),
 "C11": dict(
   text="Static decision of the parser tables against the documented grammar: extracted binding powers satisfy the precedence order, "
        "strict tier separation and left associativity; every parsed operator is lowered to itself; call arguments must not cross "
        "parentheses; admitted escapes must be decoded; string delimiters are stripped exactly and uniformly. Round trips over generated "
        "trees are not executed.",
   technique="static analysis: table extraction (binding powers, T! macro, lexer attributes, lowering arms) checked against a constant oracle, shape rules on lowering arms",
   ref="DESIGN.md section 4, C11"),
 "C12": dict(
   text="Static decision of the mechanisms behind losslessness: TokenKind/MySyntaxKind coincide index for index (transmute bound = last "
        "variant), each emitted token advances the cursor exactly once, the top-level loop runs to the real end of input, the input text "
        "reaches logos unchanged, and the parser constructs no text range of its own (resolved calls, lexer as positive control).",
   technique="static analysis: table agreement + pairing rule in build_tree + who-may-call on resolved callees (MIR)",
   ref="DESIGN.md section 4, C12"),
 "C19": dict(
   text="Static decision of the naming tables: the keyword table equals Go's 25 keywords with an order-independent lookup; the reserved "
        "Go-level names (extracted from the runtime) must be protected from user definitions; every gensym prefix must lie outside the user "
        "identifier grammar (extracted from the lexer), prefixes are non-confusable; type-name encoders encode tuple arity / array length. "
        "Injectivity of the encoders over all types is not decided.",
   technique="static analysis: table extraction against a constant oracle, table difference (reserved vs protected names), regex membership of prefixes in the lexer's identifier grammar",
   ref="DESIGN.md section 4, C19"),
 "C20": dict(
   text="Static decision on the resolved call graph: every panic-capable site (panic/unreachable/assert/unwrap/expect/str range slice) "
        "reachable from the hover/completion entry points is a reviewed ledger entry or a grammar precondition whose call sites are all "
        "guarded; token_at_offset offsets are bounds-checked; hover types and the elaboration the compile path reads are the same value. "
        "That offered completions type-check is not decided.",
   technique="static analysis: MIR call-graph reachability of panic sites with a per-function ledger, guard-dominates-call rule, record/record agreement",
   ref="DESIGN.md section 4, C20"),
 "C13": dict(
   text="Static decision that no nondeterminism source can reach compiler output: every resolved iteration over a std/im "
        "HashMap/HashSet is followed to its sink (order-free / sorted / ordered=violation), read_dir listings and "
        "caller-supplied source lists are sorted, no clock/env/thread/random/pointer source is called from the library, and no "
        "hash-ordered container is reachable from the serialised artifact types. This is the whole mechanism behind the property; "
        "byte-identity itself is not executed.",
   technique="static analysis: resolved-callee (MIR) hash-iteration sink classification + type walk + who-may-call",
   ref="DESIGN.md section 4, C13"),
}

NA_REASON = {}

def main():
    props = [json.loads(l) for l in open(os.path.join(V, "properties.jsonl"))]
    m = {
        "version": 1,
        "setup_cmd": "./setup.sh",
        "hooks": {
            "guard": "goml_verif",
            "enable": "none needed: the analysers read /repo's source and its real cargo build (cargo +nightly check with a rustc "
                      "wrapper); no instrumentation is compiled into lijunchen/goml",
            "baseline_off_cmd": "cd /repo && cargo test --workspace --no-fail-fast --offline",
            "source_commits": [],
            "add_only": True,
        },
        "engines": [
            {"name": "factdrv", "path": "engines/factdrv", "kind_free_text": "rustc_private driver (nightly) injected with RUSTC_WORKSPACE_WRAPPER: resolved calls with argument/return types, assert terminators, ADT field types from MIR of every workspace crate",
             "serves_properties": sorted(CLAIMED)},
            {"name": "synjson", "path": "engines/synjson", "kind_free_text": "syn 2 parser dumping every source file as a JSON syntax tree with spans",
             "serves_properties": sorted(CLAIMED)},
            {"name": "rules", "path": "rules", "kind_free_text": "Python rule layer: one module per property; obligations, ledgers, known findings, evidence",
             "serves_properties": sorted(CLAIMED)},
        ],
        "checks": [],
        "not_applicable": [],
        "notes": "Technique family: static analysis only. exit 2 + ANALYSIS-INCOMPLETE means the analysis could not run (never a pass).",
    }
    for p in props:
        pid = p["id"]
        if pid in CLAIMED:
            c = dict(CLAIMED[pid])
            if pid in EXTRA:
                c["text"] = c["text"] + " " + EXTRA[pid]
            if pid in HUNT:
                c["text"] = c["text"] + " " + HUNT[pid]
            if pid in ROUND6:
                c["text"] = c["text"] + " " + ROUND6[pid]
            if pid in HUNT3:
                c["text"] = c["text"] + " " + HUNT3[pid]
            if pid in ROUND7:
                c["text"] = c["text"] + " " + ROUND7[pid]
            if pid in ROUND8:
                c["text"] = c["text"] + " " + ROUND8[pid]
            if pid in ROUND9:
                c["text"] = c["text"] + " " + ROUND9[pid]
            if pid in ROUND10:
                c["text"] = c["text"] + " " + ROUND10[pid]
            if pid in ROUND11:
                c["text"] = c["text"] + " " + ROUND11[pid]
            if pid in ROUND12:
                c["text"] = c["text"] + " " + ROUND12[pid]
            m["checks"].append({
                "property_id": pid,
                "quick_cmd": f"./check {pid} --tier quick",
                "thorough_cmd": f"./check {pid} --tier thorough",
                "evidence_file": f"evidence/{pid}.json",
                "replay_cmd_template": f"./check {pid} --replay {{path}}",
                "engine": "rules",
                "level_claimed": {"category": "other", "text": c["text"], "design_ref": c["ref"]},
                "level_note": NOTE,
                "technique": c["technique"],
            })
        else:
            m["not_applicable"].append({"property_id": pid, "reason": NA_REASON.get(pid, "check under construction in this round; planned static clauses are in DESIGN.md section 4")})
    json.dump(m, open(os.path.join(V, "MANIFEST.json"), "w"), indent=1)
    print("claimed:", sorted(CLAIMED), "n/a:", [x["property_id"] for x in m["not_applicable"]])

if __name__ == "__main__":
    main()
