#!/bin/sh
# confirm every seed that has no confirmation record yet (sequential: one scratch worktree)
cd /verif
for d in seeded/*/; do
  if ! grep -q '"confirmation"' $d/meta.json 2>/dev/null; then
    python3 tools/confirm_seed.py $d 2>&1 | grep -v '^WARNING' | tail -4
  fi
done
