#!/usr/bin/env python3
"""Re-confirm every seed against /repo's current HEAD in parallel scratch worktrees (/tmp/confirm-wt-<i>):
pristine demo passes; with the patch: applies, builds, the 59 baseline tests pass, demo fails.
usage: reconfirm_all_par.py [--workers N] [--only Cxx-y ...]   (worktrees are removed afterwards)"""
import glob, json, os, subprocess, sys
from concurrent.futures import ThreadPoolExecutor
V = os.path.dirname(os.path.dirname(os.path.abspath(__file__)))

def work(args):
    i, seeds = args
    wt = f"/tmp/confirm-wt-{i}"
    out = []
    for d in seeds:
        r = subprocess.run(["python3", os.path.join(V, "tools", "confirm_seed.py"), d], capture_output=True, text=True,
                           env=dict(os.environ, CONFIRM_WT=wt))
        last = [l for l in r.stdout.split("\n") if l.startswith(("CONFIRMED", "NOT CONFIRMED"))]
        print(os.path.basename(d), last[-1].split()[0:2] if last else "ERROR", flush=True)
        out.append((os.path.basename(d), r.returncode))
    subprocess.run(f"rm -rf {wt}/target; git -C /repo worktree remove --force {wt}", shell=True, capture_output=True)
    return out

def main():
    n = int(sys.argv[sys.argv.index("--workers") + 1]) if "--workers" in sys.argv else 6
    seeds = sorted(glob.glob(os.path.join(V, "seeded", "C*-*")))
    if "--only" in sys.argv:
        only = set(sys.argv[sys.argv.index("--only") + 1:])
        seeds = [s for s in seeds if os.path.basename(s) in only]
    chunks = [seeds[i::n] for i in range(n)]
    res = []
    with ThreadPoolExecutor(n) as ex:
        for r in ex.map(work, enumerate(chunks)):
            res += r
    bad = [s for s, rc in res if rc != 0]
    print(f"{len(res) - len(bad)}/{len(res)} confirmed; not confirmed: {bad}")

if __name__ == "__main__":
    main()
