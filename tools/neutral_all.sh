#!/bin/bash
# usage: neutral_all.sh [workers] [id-regex]   (KEEP_OUT=<dir> keeps the per-patch outputs)
# Applies every behaviour-preserving patch kept under /verif/neutral/<id>/patch.diff to a scratch worktree of /repo's HEAD and runs all 20
# quick checks on it.  Every line printed after "ALARMS" is a false alarm (or a patch that no longer applies): the expected output is none.
V=$(cd "$(dirname "$0")/.." && pwd)
W=${1:-8}
RE=${2:-^N}
R=$(mktemp -d /tmp/neutral-run.XXXXXX)
one() {
  id=$1; V=$2; R=$3
  TRY_WT=/tmp/try-wt-$id "$V/tools/try_seed.sh" "$V/neutral/$id/patch.diff" C01 C02 C03 C04 C05 C06 C07 C08 C09 C10 C11 C12 C13 C14 C15 C16 C17 C18 C19 C20 > "$R/$id.txt" 2>&1
  git -C /repo worktree remove --force /tmp/try-wt-$id 2>/dev/null
  a=$(grep -E '^VIOLATION|does not apply|RULE-NOT|Traceback' "$R/$id.txt" | head -3 | tr '\n' ' ')
  [ -n "$a" ] && echo "$id: $a"
}
export -f one
echo "ALARMS"
ls "$V/neutral" | grep -E "$RE" | xargs -P "$W" -I{} bash -c 'one {} '"$V $R"
if [ -n "$KEEP_OUT" ]; then mkdir -p "$KEEP_OUT"; cp "$R"/*.txt "$KEEP_OUT"/; fi
rm -rf "$R"
echo "done: $(ls "$V/neutral" | grep -cE '^N') patches"
