#!/bin/bash
# usage: corpus_same.sh <repo-a> <repo-b>
# Compares the --dump-tast --dump-mono --dump-go output of the two builds on every corpus program
# (crates/compiler/src/tests/{pipeline,package}/*/main.gom of repo-a). Used to show a repair leaves accepted programs untouched.
A=$1; B=$2
cd "$A/crates/compiler/src/tests" || exit 2
n=0; d=0
for f in pipeline/*/main.gom package/*/main.gom; do
  n=$((n+1))
  a=$("$A/target/debug/compiler" run --dump-tast --dump-mono --dump-go "$f" 2>&1 | grep -v "conda\|failed to execute go")
  b=$("$B/target/debug/compiler" run --dump-tast --dump-mono --dump-go "$f" 2>&1 | grep -v "conda\|failed to execute go")
  if [ "$a" != "$b" ]; then d=$((d+1)); echo "DIFF $f"; fi
done
echo "programs=$n differing=$d"
