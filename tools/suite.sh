#!/bin/bash
# usage: suite.sh <repo-dir>   -- runs the workspace tests offline and prints pass/fail counts (baseline: 59 pass, 16 always-fail)
cd "$1" || exit 2
CARGO_NET_OFFLINE=true cargo test --workspace --no-fail-fast --offline 2>&1 | grep -E "^test .* \.\.\. (ok|FAILED)$" | awk '{c[$NF]++} END{for(k in c) print k, c[k]}'
