"""Helpers over the factdrv facts (E1)."""
import re
from .core import AnalysisIncomplete

HASH_TY = re.compile(r"(std::collections::Hash(Map|Set)<|im::Hash(Map|Set)<|im::hash(map|set)::Hash(Map|Set)<|im::hash::(map|set)::Hash(Map|Set)<|hashbrown::Hash(Map|Set)<)")
BTREE_TY = re.compile(r"std::collections::BTree(Map|Set)<")


def strip_generics(s):
    """remove <...> groups (nested)"""
    out, depth = [], 0
    for ch in s:
        if ch == "<":
            depth += 1
        elif ch == ">":
            depth -= 1
        elif depth == 0:
            out.append(ch)
    return "".join(out)


def outer_type(ty):
    """'&mut std::vec::Vec<T>' -> ('&mut ', 'std::vec::Vec')"""
    m = re.match(r"^(&(?:'[a-z_]+ )?(?:mut )?)*", ty)
    pre = m.group(0) if m else ""
    rest = ty[len(pre):]
    i = rest.find("<")
    return pre, (rest if i < 0 else rest[:i])


def is_hash_container(ty):
    """the type itself (modulo references) is a hash-ordered container"""
    _, o = outer_type(ty)
    return bool(re.match(r"^(std::collections::Hash(Map|Set)|im::Hash(Map|Set)|im::hash(map|set)::Hash(Map|Set)|im::hash::(map|set)::Hash(Map|Set))$", o))


def is_btree_container(ty):
    _, o = outer_type(ty)
    return o in ("std::collections::BTreeMap", "std::collections::BTreeSet")


def callee_tail(callee):
    """last path segment of a resolved callee path, generics removed"""
    s = strip_generics(callee)
    return s.rsplit("::", 1)[-1]


class Mir:
    def __init__(self, facts):
        self.raw = facts.mir()
        self.calls = self.raw["call"]
        self._by_pos = None
        self._by_caller = None
        self.local_fns = {(f["crate"], f["path"]) for f in self.raw["fn"]}
        self.adts = {}
        for a in self.raw["adt"]:
            self.adts[(a["crate"], a["path"])] = a

    def by_pos(self):
        if self._by_pos is None:
            self._by_pos = {}
            for c in self.calls:
                self._by_pos.setdefault((c["file"], c["line"], c["col"]), []).append(c)
        return self._by_pos

    def at(self, file, line, col, tail=None):
        out = self.by_pos().get((file, line, col), [])
        if tail:
            out = [c for c in out if callee_tail(c["callee"]) == tail]
        return out

    def in_span(self, file, sp):
        """calls located inside a source span"""
        out = []
        for c in self.calls:
            if c["file"] != file:
                continue
            if (sp[0], sp[1]) <= (c["line"], c["col"]) < (sp[2], sp[3]):
                out.append(c)
        return out

    def by_caller(self):
        if self._by_caller is None:
            self._by_caller = {}
            for c in self.calls:
                base = re.sub(r"(::\{closure#\d+\})+$", "", c["caller"])
                self._by_caller.setdefault((c["crate"], base), []).append(c)
        return self._by_caller

    def is_workspace_callee(self, c):
        cal = c["callee"]
        if (c["crate"], cal) in self.local_fns:
            return True
        head = cal.split("::", 1)[0].lstrip("<")
        for (kr, p) in ():
            pass
        return head in ("ast", "common_defs", "compiler", "cst", "diagnostics", "lexer", "parser", "wasm_app") or \
            any(cal == p for (k, p) in self.local_fns if k == c["crate"])

    def adt(self, crate, path):
        return self.adts.get((crate, path))


def adt_refs(mir, ty, crate):
    """workspace ADT keys mentioned in a type string"""
    out = []
    for m in re.finditer(r"[A-Za-z_][A-Za-z0-9_]*(?:::[A-Za-z_][A-Za-z0-9_]*)*", ty):
        p = m.group(0)
        cands = [(crate, p), ("compiler", p)]
        if "::" in p:
            head, rest = p.split("::", 1)
            cands.append((head, rest))
        for key in cands:
            if key in mir.adts:
                out.append(key)
                break
    return out


def reachable_adts(mir, root_key):
    """{adt key: path string} for every workspace ADT reachable from root by field inclusion"""
    seen = {}
    work = [(root_key, mir.adts[root_key]["path"])]
    while work:
        key, path = work.pop()
        if key in seen:
            continue
        seen[key] = path
        a = mir.adts[key]
        for v in a["variants"]:
            for f in v["fields"]:
                for k2 in adt_refs(mir, f["ty"], key[0]):
                    if k2 not in seen:
                        work.append((k2, f"{path} -> {a['path']}.{f['name']}"))
    return seen


def find_adt(mir, name):
    c = [k for k in mir.adts if k[1] == name or k[1].endswith("::" + name)]
    if len(c) == 1:
        return c[0]
    exact = [k for k in c if k[1] == name]
    if len(exact) == 1:
        return exact[0]
    raise AnalysisIncomplete(f"ADT {name}: {len(c)} candidates {c[:5]}")
