"""Guarded-index rule: every `slice[E]` on a byte/token slice is dominated by a bounds test on E itself."""
import re
from . import syn as S


def chain_ops(n, op):
    if n["k"] == "Binary" and n["op"] == op:
        return chain_ops(n["left"], op) + chain_ops(n["right"], op)
    return [n]


def _unparen(t):
    while t.startswith("(") and t.endswith(")"):
        depth, ok = 0, True
        for i, ch in enumerate(t):
            if ch == "(":
                depth += 1
            elif ch == ")":
                depth -= 1
                if depth == 0 and i != len(t) - 1:
                    ok = False
                    break
        if not ok:
            break
        t = t[1:-1]
    return t


def _tails(e):
    """the expressions an if / block expression can evaluate to"""
    if e["k"] == "If" and e.get("else") is not None:
        return _tails(e["then"]) + _tails(e["else"])
    if e["k"] == "Block":
        if e["stmts"] and e["stmts"][-1]["k"] == "ExprStmt" and not e["stmts"][-1].get("semi"):
            return _tails(e["stmts"][-1]["expr"])
        return [e]
    if e["k"] == "Paren":
        return _tails(e["expr"])
    return [e]


def index_guard(text, idxnode, par, aliases=(), _depth=0):
    """returns a description of the dominating bounds test for `base[X]`, or None. text(node) -> normalised source.
    aliases: other expressions with the same length as base (e.g. the str a byte slice was taken from)"""
    base = text(idxnode["base"])
    X = text(idxnode["index"])
    ex = re.escape(X)
    eb = "(?:" + "|".join(re.escape(b) for b in (base,) + tuple(aliases)) + ")"
    # the length may have been named once: `let len = bytes.len();` (an immutable local of an enclosing block, bound before the use)
    lens = [eb + r"\.len\(\)"]
    for a in par.ancestors(idxnode):
        if a["k"] != "Block":
            continue
        for st in a["stmts"]:
            if (st["sp"][0], st["sp"][1]) >= (idxnode["sp"][0], idxnode["sp"][1]):
                break
            if st["k"] == "Local" and st["pat"]["k"] == "PIdent" and not st["pat"].get("mut") and st.get("init") is not None \
                    and re.fullmatch(eb + r"\.len\(\)", _unparen(text(st["init"]))):
                lens.append(re.escape(st["pat"]["name"]))
    el = "(?:" + "|".join(lens) + ")"
    up = re.compile(ex + r"(\+\d+)?<" + el)          # X < len       (holds in the guarded region)
    lo = re.compile(ex + r"(\+\d+)?>=" + el)         # X >= len      (its negation holds after an || / early exit)
    for a in par.ancestors(idxnode):
        if a["k"] == "Binary" and a["op"] in ("||", "&&"):
            for o in chain_ops(a, a["op"]):
                if S.span_contains(o["sp"], idxnode["sp"]):
                    break
                t = _unparen(text(o))
                if a["op"] == "||" and lo.fullmatch(t):
                    return f"`{t} || …` (short-circuit)"
                if a["op"] == "&&" and up.fullmatch(t):
                    return f"`{t} && …` (short-circuit)"
        if a["k"] in ("While", "If"):
            region = a["body"] if a["k"] == "While" else a["then"]
            if S.span_contains(region["sp"], idxnode["sp"]):
                for o in chain_ops(a["cond"], "&&"):
                    t = _unparen(text(o))
                    if up.fullmatch(t):
                        return f"inside `{a['k'].lower()} {t}`"
        if a["k"] == "Block":
            for st in a["stmts"]:
                if (st["sp"][0], st["sp"][1]) >= (idxnode["sp"][0], idxnode["sp"][1]):
                    break
                e = st.get("expr") if st["k"] == "ExprStmt" else None
                if e and e["k"] == "If" and any(x["k"] in ("Return", "Break", "Continue") for x in S.walk(e["then"])):
                    for o in chain_ops(e["cond"], "||"):
                        t = _unparen(text(o))
                        if lo.fullmatch(t):
                            # the guard variable must not be reassigned between the test and the use: accept only if no
                            # assignment to the index variable lies in between
                            var = re.match(r"[a-z_]+", X)
                            reassigned = False
                            if var:
                                for s2 in a["stmts"]:
                                    if (s2["sp"][0], s2["sp"][1]) <= (st["sp"][0], st["sp"][1]) or (s2["sp"][0], s2["sp"][1]) >= (idxnode["sp"][0], idxnode["sp"][1]):
                                        continue
                                    for x in S.walk(s2):
                                        if x["k"] in ("Assign",) and S.is_path(x["left"], var.group(0)):
                                            reassigned = True
                                        if x["k"] == "Binary" and x["op"] in ("+=",) and S.is_path(x["left"], var.group(0)):
                                            reassigned = True
                            if not reassigned:
                                return f"after `if {t} {{ exit }}`"
    # an index bound once from guarded values: `let anchor = if .. { cursor - 1 } else { cursor };` after `if cursor >= bytes.len() { return }`
    if re.fullmatch(r"[a-z_][a-z0-9_]*", X) and _depth < 2:
        for a in par.ancestors(idxnode):
            if a["k"] != "Block":
                continue
            for st in a["stmts"]:
                if (st["sp"][0], st["sp"][1]) >= (idxnode["sp"][0], idxnode["sp"][1]):
                    break
                if st["k"] == "Local" and st["pat"]["k"] == "PIdent" and st["pat"]["name"] == X and not st["pat"].get("mut") and st.get("init") is not None:
                    tails = _tails(st["init"])
                    srcs = []
                    for t_ in tails:
                        if t_["k"] == "Path" and len(t_["segs"]) == 1:
                            srcs.append(t_)
                        elif t_["k"] == "Binary" and t_["op"] == "-" and t_["left"]["k"] == "Path" and len(t_["left"]["segs"]) == 1 and t_["right"]["k"] == "Lit":
                            srcs.append(t_["left"])
                        else:
                            srcs = None
                            break
                    if srcs:
                        why = []
                        for w in srcs:
                            fake = {"k": "Index", "base": idxnode["base"], "index": w, "sp": st["sp"]}
                            par.p[id(fake)] = st
                            g_ = index_guard(text, fake, par, aliases, _depth + 1)
                            par.p.pop(id(fake), None)
                            if g_ is None:
                                why = None
                                break
                            why.append(g_)
                        if why:
                            return f"`{X}` is bound once from {sorted({text(w) for w in srcs})}, each bounded: {why[0]}"
    m = re.fullmatch(r"([a-z_]+)-(\d+)", X)
    if m:
        v, k = m.group(1), m.group(2)
        for a in par.ancestors(idxnode):
            if a["k"] == "Binary" and a["op"] == "&&":
                for o in chain_ops(a, "&&"):
                    if S.span_contains(o["sp"], idxnode["sp"]):
                        break
                    t = _unparen(text(o))
                    if re.fullmatch(re.escape(v) + r">0|" + re.escape(v) + r">=" + k, t):
                        return f"`{t} && …` (lower bound; upper bound follows from {v} being in range)"
    return None
