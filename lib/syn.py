"""Helpers over the synjson trees (E2)."""
import re
from .core import AnalysisIncomplete


def walk(node):
    """pre-order over every dict node that has a kind"""
    stack = [node]
    while stack:
        n = stack.pop()
        if isinstance(n, dict):
            if "k" in n:
                yield n
            for v in reversed(list(n.values())):
                if isinstance(v, (dict, list)):
                    stack.append(v)
        elif isinstance(n, list):
            for v in reversed(n):
                if isinstance(v, (dict, list)):
                    stack.append(v)


def walk_no_closures(node):
    """like walk, but does not descend into closures or nested fn items"""
    stack = [node]
    first = True
    while stack:
        n = stack.pop()
        if isinstance(n, dict):
            if "k" in n:
                yield n
                if not first and n["k"] in ("Closure", "ItemStmt"):
                    continue
            first = False
            for v in reversed(list(n.values())):
                if isinstance(v, (dict, list)):
                    stack.append(v)
        elif isinstance(n, list):
            for v in reversed(n):
                if isinstance(v, (dict, list)):
                    stack.append(v)


def find(node, *kinds):
    for n in walk(node):
        if n["k"] in kinds:
            yield n


def is_path(n, *names):
    """expression is a path whose last segment is one of names (or any path if no names)"""
    return isinstance(n, dict) and n.get("k") == "Path" and (not names or n["segs"][-1] in names)


def path_str(n):
    return "::".join(n["segs"]) if isinstance(n, dict) and n.get("k") in ("Path", "PPath") else None


def callee_name(n):
    """last path segment of a Call's callee, or method name of a MethodCall"""
    if n["k"] == "MethodCall":
        return n["method"]
    if n["k"] == "Call":
        f = n["func"]
        if f.get("k") == "Path":
            return f["segs"][-1]
    return None


def callee_segs(n):
    if n["k"] == "Call" and n["func"].get("k") == "Path":
        return n["func"]["segs"]
    if n["k"] == "MethodCall":
        return [n["method"]]
    return None


def calls(node, *names):
    for n in walk(node):
        if n["k"] in ("Call", "MethodCall"):
            cn = callee_name(n)
            if not names or cn in names:
                yield n


def idents(node):
    """set of single-segment path names mentioned in an expression subtree"""
    out = set()
    for n in walk(node):
        if n["k"] == "Path" and len(n["segs"]) == 1:
            out.add(n["segs"][0])
        elif n["k"] == "Macro" and n.get("args") is None:
            # opaque macro: fall back to identifier tokens
            out.update(re.findall(r"[A-Za-z_][A-Za-z0-9_]*", n.get("tokens", "")))
        elif n["k"] == "Lit" and n.get("lit") == "Str":
            # inline format args `{name}` / `{name:?}`
            out.update(re.findall(r"\{([A-Za-z_][A-Za-z0-9_]*)(?::[^}]*)?\}", n.get("value", "")))
    return out


def pat_bindings(p):
    """names bound by a pattern"""
    out = []
    for n in walk(p):
        if n["k"] == "PIdent":
            name = n["name"]
            if name[:1].islower() or name.startswith("_"):
                out.append(name)
    return out


def strip_refs(p):
    while isinstance(p, dict) and p.get("k") in ("PRef",):
        p = p["pat"]
    return p


def pat_alts(p):
    """top-level alternatives of a pattern (or-pattern flattened, refs stripped)"""
    p = strip_refs(p)
    if p["k"] == "POr":
        out = []
        for c in p["cases"]:
            out.extend(pat_alts(c))
        return out
    return [p]


def pat_alts_deep(p):
    """like pat_alts, but also looks through a binder (`x @ (A | B)`) and distributes `Some(..)` over inner alternatives"""
    p = strip_refs(p)
    if p["k"] == "POr":
        out = []
        for c in p["cases"]:
            out.extend(pat_alts_deep(c))
        return out
    if p["k"] == "PIdent" and p.get("sub") is not None:
        return pat_alts_deep(p["sub"])
    if p["k"] == "PTupleStruct" and p.get("segs") and p["segs"][-1] == "Some" and len(p.get("elems") or []) == 1:
        inner = pat_alts_deep(p["elems"][0])
        if len(inner) > 1:
            return [dict(p, elems=[i]) for i in inner]
    return [p]


def pat_head(p):
    """('variant', segs) | ('any', name|None) | ('lit', value) | ('tuple', elems) | ('other', kind)"""
    p = strip_refs(p)
    k = p["k"]
    if k == "PWild":
        return ("any", None)
    if k == "PIdent":
        name = p["name"]
        if p.get("sub") is not None:
            return pat_head(p["sub"])
        if name[:1].isupper():
            return ("variant", [name])
        return ("any", name)
    if k in ("PPath", "PTupleStruct", "PStruct"):
        return ("variant", p["segs"])
    if k == "PLit":
        return ("lit", p["expr"].get("value"))
    if k == "PTuple":
        return ("tuple", p["elems"])
    return ("other", k)


def type_args(ty):
    """split 'Foo<A,B<C>>' -> ('Foo', ['A','B<C>']) on the outermost level"""
    ty = ty.strip()
    i = ty.find("<")
    if i < 0 or not ty.endswith(">"):
        return ty, []
    head, inner = ty[:i], ty[i + 1:-1]
    args, depth, cur = [], 0, ""
    for ch in inner:
        if ch in "<([":
            depth += 1
        elif ch in ">)]":
            depth -= 1
        if ch == "," and depth == 0:
            args.append(cur.strip())
            cur = ""
        else:
            cur += ch
    if cur.strip():
        args.append(cur.strip())
    return head, args


def type_mentions(ty, name):
    return re.search(r"(?<![A-Za-z0-9_])" + re.escape(name) + r"(?![A-Za-z0-9_])", ty or "") is not None


class VSpan(list):
    """a span in the coordinates of the place a helper was inlined at (so that containment and order against the caller's code mean
    what they say); `.orig` is the span in the file, which facts.text reads"""
    orig = None
    extra = None


def _virtual_spans(hb, call_sp):
    """move every span of the inlined helper body into the open interval just behind the first character of the call"""
    nodes = []
    stack = [hb]
    while stack:
        n = stack.pop()
        if isinstance(n, dict):
            sp = n.get("sp")
            if isinstance(sp, list) and len(sp) == 4:
                nodes.append(n)
            stack.extend(v for v in n.values() if isinstance(v, (dict, list)))
        elif isinstance(n, list):
            stack.extend(v for v in n if isinstance(v, (dict, list)))
    pts = sorted({(n["sp"][0], n["sp"][1]) for n in nodes} | {(n["sp"][2], n["sp"][3]) for n in nodes})
    rank = {p_: i for i, p_ in enumerate(pts)}
    l0, c0 = call_sp[0], call_sp[1]
    den = float(len(pts) + 2)
    for n in nodes:
        sp = n["sp"]
        v = VSpan([l0, c0 + (rank[(sp[0], sp[1])] + 1) / den, l0, c0 + (rank[(sp[2], sp[3])] + 1) / den])
        v.orig = getattr(sp, "orig", None) or list(sp)
        v.extra = getattr(sp, "extra", None)
        n["sp"] = v


class FnInfo:
    __slots__ = ("name", "file", "mod", "impl", "trait", "node", "test", "qual")

    def __init__(self, name, file, mod, impl, trait, node, test):
        self.name, self.file, self.mod, self.impl, self.trait, self.node, self.test = name, file, mod, impl, trait, node, test
        parts = list(mod)
        if impl:
            parts.append(impl)
        parts.append(name)
        self.qual = "::".join(parts)

    @property
    def body(self):
        return self.node.get("body")

    @property
    def line(self):
        return self.node["sp"][0]

    def params(self):
        return self.node.get("params", [])

    def __repr__(self):
        return f"<fn {self.qual} @{self.file}:{self.line}>"


def _is_test_attr(attrs):
    for a in attrs or []:
        if a["name"] == "cfg" and "test" in a["args"]:
            return True
        if a["name"] == "test":
            return True
    return False


def file_mod(rel):
    """crates/compiler/src/go/compile.rs -> ['compiler','go','compile']"""
    parts = rel.split("/")
    if len(parts) < 4 or parts[0] != "crates":
        return parts
    crate = parts[1].replace("-", "_")
    rest = parts[3:] if parts[2] == "src" else parts[2:]
    mods = [crate]
    for p in rest:
        p = p[:-3] if p.endswith(".rs") else p
        if p in ("lib", "main", "mod"):
            continue
        mods.append(p)
    return mods


ORCHESTRATORS = {"link_cores", "link_cores_with_entry", "check_package", "build_package"}
# second reading (core.Run.try_rule): an orchestrator with the phases that were carved out of it into private helpers put back in place
INLINE_ORCHESTRATORS = False


class Model:
    def __init__(self, facts):
        self.facts = facts
        self._fns = {}
        self._all = None
        self._enums = None
        self._structs = None

    def files(self, prefix="crates/"):
        return [f for f in self.facts.syn_files() if f.startswith(prefix)]

    def src_files(self):
        """non-test source files of the workspace crates"""
        out = []
        for f in self.facts.syn_files():
            parts = f.split("/")
            if len(parts) >= 3 and parts[2] == "src" and "/tests/" not in f and not f.endswith("/tests.rs"):
                out.append(f)
        return out

    def tree(self, rel):
        return self.facts.syn(rel)

    def _collect(self, rel):
        if rel in self._fns:
            return self._fns[rel]
        tree = self.facts.syn(rel)
        out = []

        def rec(items, mod, test):
            for it in items or []:
                k = it["k"]
                t = test or _is_test_attr(it.get("attrs"))
                if k == "Fn":
                    out.append(FnInfo(it["name"], rel, mod, None, None, it, t))
                elif k == "Impl":
                    st = it["self_ty"]
                    base = re.sub(r"<.*", "", st).split("::")[-1].lstrip("&")
                    for sub in it["items"]:
                        if sub["k"] == "Fn":
                            out.append(FnInfo(sub["name"], rel, mod, base, it.get("trait"), sub, t or _is_test_attr(sub.get("attrs"))))
                elif k == "Trait":
                    for sub in it["items"]:
                        if sub["k"] == "Fn" and sub.get("body"):
                            out.append(FnInfo(sub["name"], rel, mod, it["name"], None, sub, t))
                elif k == "Mod" and it.get("items") is not None:
                    rec(it["items"], mod + [it["name"]], t)

        rec(tree["items"], file_mod(rel), False)
        # nested fn items (fn declared inside a function body) are functions too
        nested = []
        for fi in out:
            if fi.body is None:
                continue
            for n in walk(fi.body):
                if n["k"] == "ItemStmt" and n["item"]["k"] == "Fn":
                    it = n["item"]
                    nf = FnInfo(it["name"], rel, fi.mod + ([fi.impl] if fi.impl else []) + [fi.name], None, None, it, fi.test)
                    nested.append(nf)
                elif n["k"] == "ItemStmt" and n["item"]["k"] == "Impl":
                    it = n["item"]
                    base = re.sub(r"<.*", "", it["self_ty"]).split("::")[-1].lstrip("&")
                    for sub in it["items"]:
                        if sub["k"] == "Fn":
                            nested.append(FnInfo(sub["name"], rel, fi.mod + ([fi.impl] if fi.impl else []) + [fi.name], base, it.get("trait"), sub, fi.test))
        out.extend(nested)
        self._fns[rel] = out
        return out

    def fns(self, rel=None, include_tests=False):
        files = [rel] if rel else self.src_files()
        out = []
        for f in files:
            for fi in self._collect(f):
                if include_tests or not fi.test:
                    out.append(fi)
        return out

    def find_fns(self, name, rel=None, impl=None):
        return [f for f in self.fns(rel) if f.name == name and (impl is None or f.impl == impl)]

    def fn(self, name, rel=None, impl=None, role=None):
        """unique function by name (in file if given, else anywhere); AnalysisIncomplete if absent/ambiguous"""
        c = self.find_fns(name, rel, impl)
        if not c and rel:
            c = self.find_fns(name, None, impl)  # moved to another file
        if len(c) == 1:
            f = self._behind_wrapper(c[0])
            # an orchestrator's obligations are about the whole flow it performs (validate, order, merge, lower): in the second reading
            # it is read with the phases that were carved out of it put back in place (neutral patch N33-f splits link_cores into six)
            if INLINE_ORCHESTRATORS and f.name in ORCHESTRATORS and f.body is not None:
                return self.inlined_fn(f)
            return f
        if not c:
            raise AnalysisIncomplete(f"anchor function `{name}`{' in ' + rel if rel else ''} not found ({role or 'no role note'})")
        if rel:
            c2 = [f for f in c if f.file == rel]
            if len(c2) == 1:
                return c2[0]
        raise AnalysisIncomplete(f"anchor function `{name}` is ambiguous: {c}")

    def _behind_wrapper(self, f, hops=2):
        """an anchor that has become a thin wrapper (`pub fn link_cores(cores) { link_cores_with_entry(cores, &EntryPoint::default()) }`:
        its whole body is one call of a same-file function that is handed every parameter) is the function it delegates to"""
        for _ in range(hops):
            b = f.body
            if b is None or len(b.get("stmts", [])) != 1:
                return f
            e = b["stmts"][0]
            e = e.get("expr") if e["k"] == "ExprStmt" else None
            while e is not None and e["k"] in ("Try", "Paren", "Return"):
                e = e.get("expr")
            if e is None or e["k"] not in ("Call", "MethodCall"):
                return f
            if e["k"] == "MethodCall" and not is_path(e["recv"], "self") and not is_path(e["recv"], "Self"):
                return f
            cands = [g for g in self.fns(f.file) if g.name == callee_name(e) and g is not f and g.body is not None and not g.test]
            if len(cands) != 1:
                return f
            params = [p["pat"]["name"] for p in f.params() if not p["self"] and p["pat"]["k"] == "PIdent"]
            handed = set()
            for a in e["args"]:
                handed |= idents(a)
            if not params or not set(params) <= handed:
                return f
            f = cands[0]
        return f

    def scope_fns(self, f, depth=1, callbacks=False):
        """f and the helper functions of the same file it calls directly (a long function split into private helpers keeps its
        obligations): free functions or methods of the same impl, not the function itself, nothing that calls f back"""
        out = [f]
        seen = {f.name}
        frontier = [f]
        for _ in range(depth):
            nxt = []
            for g in frontier:
                if g.body is None:
                    continue
                names = {callee_name(c) for c in walk(g.body) if c["k"] in ("Call", "MethodCall")}
                for h in self.fns(f.file):
                    if h.body is None or h.name in seen or h.name not in names or h.test:
                        continue
                    if h.impl not in (None, f.impl) and sum(1 for x in self.fns(f.file) if x.name == h.name) != 1:
                        continue  # a method of another type is followed only when its name is unique in the file
                    if not callbacks and any(callee_name(c) == f.name for c in walk(h.body) if c["k"] in ("Call", "MethodCall")):
                        continue
                    seen.add(h.name)
                    out.append(h)
                    nxt.append(h)
            frontier = nxt
        return out

    def inlined_body(self, f, depth=1, rename=False, sole=False):
        """f's body with the calls of its same-file helpers (scope_fns) replaced by the helper's body: what the function looked like before
        a block was extracted into a private helper.  A copy - the trees themselves stay as parsed.  Spans stay those of the helper's
        code (same file), `return` / `?` inside an inlined body keep their meaning of leaving the helper: rules that ask which loops,
        calls and tests a pipeline function performs read this; rules about the function's own exits read f.body."""
        import copy
        key = (f.file, f.qual, depth, rename, sole)
        cache = self.__dict__.setdefault("_inl", {})
        if key in cache:
            return cache[key]
        # (an arm of a traversal that was moved into a function of its own calls the traversal back: with `sole` that is still a part of f)
        helpers = {g.name: g for g in self.scope_fns(f, depth, callbacks=sole) if g is not f and g.body is not None}
        if sole:
            # only what was carved out of f: helpers every caller of which (in the file) is f or another such helper
            callers = {}
            for g in self.fns(f.file):
                if g.body is None or g.test:
                    continue
                for c in walk(g.body):
                    if c["k"] in ("Call", "MethodCall") and callee_name(c) in helpers:
                        callers.setdefault(callee_name(c), set()).add(g.name)
            changed = True
            while changed:
                changed = False
                for nm in list(helpers):
                    # (a recursive function is an algorithm of its own, not a block that was moved out)
                    if nm in callers.get(nm, set()) or not callers.get(nm, set()) <= {f.name} | set(helpers):
                        del helpers[nm]
                        changed = True
        body = copy.deepcopy(f.body)

        def rec(node, stack):
            if isinstance(node, list):
                for x in node:
                    rec(x, stack)
                return
            if not isinstance(node, dict):
                return
            for v in list(node.values()):
                if isinstance(v, (dict, list)):
                    rec(v, stack)
            if node.get("k") in ("Call", "MethodCall"):
                nm = callee_name(node)
                nm = nm.split("::")[-1] if nm else nm
                if nm in helpers and nm not in stack and len(stack) < depth:
                    hb = copy.deepcopy(helpers[nm].body)
                    if rename:
                        # a parameter is the caller's variable when the argument is one (`x`, `&x`, `&mut x`, `x.clone()`)
                        ps = [p_["pat"].get("name") for p_ in helpers[nm].params() if not p_["self"]]
                        ren = {}
                        for pn, a in zip(ps, node.get("args") or []):
                            while a.get("k") in ("Reference", "Ref", "AddrOf", "Paren") and isinstance(a.get("expr"), dict):
                                a = a["expr"]
                            if a.get("k") == "MethodCall" and a["method"] == "clone" and not a["args"]:
                                a = a["recv"]
                            if pn and a.get("k") == "Path" and len(a["segs"]) == 1 and a["segs"][0] != pn:
                                ren[pn] = a["segs"][0]
                        if ren:
                            for x in walk(hb):
                                if x["k"] == "Path" and len(x["segs"]) == 1 and x["segs"][0] in ren:
                                    x["segs"] = [ren[x["segs"][0]]]
                    rec(hb, stack + [nm])
                    sp = node.get("sp")
                    if rename and sp:
                        _virtual_spans(hb, sp)
                        # the text of the spliced block is the call followed by what the helper says (nested helpers included)
                        extra = []
                        for x in walk(hb):
                            e_ = getattr(x.get("sp"), "extra", None)
                            if e_:
                                extra.extend(e_)
                        own = [getattr(st_["sp"], "orig", None) or st_["sp"] for st_ in hb["stmts"] if st_.get("sp")]
                        sp = VSpan(sp)
                        sp.orig = list(sp)
                        sp.extra = own + extra
                    orig = dict(node)
                    orig["inlined_call"] = True
                    node.clear()
                    # the call itself stays visible (rules that look for it by name still find it), followed by the helper's statements
                    node.update({"k": "Block", "sp": sp, "inlined": nm,
                                 "stmts": [{"k": "ExprStmt", "expr": orig, "semi": True, "sp": sp}] + hb["stmts"]})
        rec(body, [])
        cache[key] = body
        return body

    def inlined_fn(self, f, depth=2):
        """f as it read before private helpers were carved out of it: same name / file / node, the body with every helper that only f
        (or another such helper) calls put back in place, parameters named as the caller's variables"""
        body = self.inlined_body(f, depth, rename=True, sole=True)

        class _Inl:
            pass
        o = _Inl()
        o.name, o.file, o.mod, o.impl, o.trait, o.node, o.test, o.qual, o.body, o.line = f.name, f.file, f.mod, f.impl, f.trait, f.node, f.test, f.qual, body, f.line
        o.params = f.params
        return o

    def arg_for_param(self, caller, helper, pname):
        """the expression `caller` passes for parameter `pname` of `helper` (first call found), or None"""
        ps = [p["pat"].get("name") for p in helper.params() if not p["self"]]
        if pname not in ps:
            return None
        i = ps.index(pname)
        for c in walk(caller.body):
            if c["k"] in ("Call", "MethodCall") and callee_name(c) == helper.name and len(c["args"]) > i:
                return c["args"][i]
        return None

    def fn_or_role(self, name, rel, root, arm_regex):
        """the anchor function `name`; when it was renamed or turned into a method, the unique function of the file that is reachable
        from `root` (calls by name inside the file) and has a match arm whose pattern matches `arm_regex`"""
        c = self.find_fns(name, rel)
        if len(c) == 1:
            return c[0]
        fns = [g for g in self.fns(rel) if g.body is not None and not g.test]
        reach, work = [], [g for g in fns if g.name == root]
        while work:
            g = work.pop()
            if any(g is r for r in reach):
                continue
            reach.append(g)
            names = {callee_name(cc) for cc in walk(g.body) if cc["k"] in ("Call", "MethodCall")}
            gtxt = self.facts.text(rel, g.body["sp"])
            for h in fns:
                # a method is entered from its own impl, or from a function that names the impl's type
                if h.name in names and (h.impl is None or h.impl == g.impl or re.search(r"\b" + re.escape(str(h.impl).split("<")[0]) + r"\b", gtxt)):
                    work.append(h)
        cands = []
        for g in reach:
            if g.name == root:
                continue
            if any(re.search(arm_regex, norm_ws(self.facts.text(rel, a["pat"]["sp"]))) for m in find(g.body, "Match") for a in m["arms"]):
                cands.append(g)
        if len(cands) == 1:
            return cands[0]
        raise AnalysisIncomplete(f"anchor function `{name}` in {rel} not found, and {len(cands)} functions reachable from {root} match its role")

    def opt_fn(self, name, rel=None, impl=None):
        try:
            return self.fn(name, rel, impl)
        except AnalysisIncomplete:
            return None

    # -------- items
    def all_items(self, rel):
        """(item, modpath) for every item in a file, recursively through inline mods (not test mods)"""
        tree = self.facts.syn(rel)
        out = []

        def rec(items, mod):
            for it in items or []:
                if _is_test_attr(it.get("attrs")):
                    continue
                out.append((it, mod))
                if it["k"] == "Mod" and it.get("items") is not None:
                    rec(it["items"], mod + [it["name"]])

        rec(tree["items"], file_mod(rel))
        return out

    def enums(self):
        """list of dicts {name,file,mod,variants:[{name,fields,style}],node}"""
        if self._enums is None:
            self._enums = []
            for rel in self.src_files():
                for it, mod in self.all_items(rel):
                    if it["k"] == "Enum":
                        self._enums.append({"name": it["name"], "file": rel, "mod": mod, "variants": it["variants"], "node": it})
        return self._enums

    def enum(self, name, rel=None):
        c = [e for e in self.enums() if e["name"] == name and (rel is None or e["file"] == rel)]
        if len(c) == 1:
            return c[0]
        if not c:
            raise AnalysisIncomplete(f"enum `{name}`{' in ' + rel if rel else ''} not found")
        raise AnalysisIncomplete(f"enum `{name}` ambiguous: {[e['file'] for e in c]}")

    def structs(self):
        if self._structs is None:
            self._structs = []
            for rel in self.src_files():
                for it, mod in self.all_items(rel):
                    if it["k"] == "StructDef":
                        self._structs.append({"name": it["name"], "file": rel, "mod": mod, "fields": it["fields"], "node": it})
        return self._structs

    def struct(self, name, rel=None):
        c = [e for e in self.structs() if e["name"] == name and (rel is None or e["file"] == rel)]
        if len(c) == 1:
            return c[0]
        if not c:
            raise AnalysisIncomplete(f"struct `{name}`{' in ' + rel if rel else ''} not found")
        raise AnalysisIncomplete(f"struct `{name}` ambiguous: {[e['file'] for e in c]}")

    def uses(self, rel):
        """flattened use paths of a file: list of (path list, alias, glob)"""
        out = []
        for it, _ in self.all_items(rel):
            if it["k"] == "Use":
                for p in it["paths"]:
                    out.append((p["path"], p["alias"], p["glob"]))
        return out

    def resolve_enum(self, rel, enum_name, used_variants=()):
        """which enum definition does `enum_name` denote inside file rel?
        1. defined in the file; 2. imported by a `use` whose path names a module that defines it;
        3. the unique enum of that name whose variant set contains all used_variants."""
        cands = [e for e in self.enums() if e["name"] == enum_name]
        if used_variants:
            c2 = [e for e in cands if all(v in {x["name"] for x in e["variants"]} for v in used_variants)]
            if c2:
                cands = c2
        if len(cands) <= 1:
            return cands[0] if cands else None
        same = [e for e in cands if e["file"] == rel]
        if len(same) == 1:
            return same[0]
        # imports
        crate = file_mod(rel)[0]
        for path, alias, glob in self.uses(rel):
            name = alias or (path[-1] if path else None)
            if glob:
                modp = path
            elif name == enum_name:
                modp = path[:-1]
            else:
                continue
            modp = [crate if s == "crate" else s for s in modp]
            if modp and modp[0] == "super":
                modp = file_mod(rel)[:-1] + modp[1:]
            for e in cands:
                if e["mod"] == modp or e["mod"][-len(modp):] == modp:
                    return e
        return None


def match_enum_coverage(model, rel, m, enum_name=None):
    """For a Match node: (enum def or None, {variant: [arm indices]}, catch_all arm indices).
    Patterns are examined at top level (after refs)."""
    used = {}
    catch = []
    names = set()
    for i, arm in enumerate(m["arms"]):
        for alt in pat_alts(arm["pat"]):
            h = pat_head(alt)
            if h[0] == "variant":
                segs = h[1]
                v = segs[-1]
                en = segs[-2] if len(segs) >= 2 else None
                if en == "Self":
                    en = None
                if en:
                    names.add(en)
                used.setdefault(v, []).append(i)
            elif h[0] == "any":
                if arm.get("guard") is None:
                    catch.append(i)
    en = enum_name or (sorted(names)[0] if len(names) == 1 else None)
    edef = model.resolve_enum(rel, en, list(used)) if en else None
    return edef, used, catch


# ---------------------------------------------------------------------------------------
class Parents:
    """parent links for every kinded node below root (by id); records without a kind are transparent"""

    def __init__(self, root):
        self.p = {}
        self.slot = {}
        stack = [(root, root if isinstance(root, dict) and "k" in root else None, "")]
        while stack:
            n, owner, slot = stack.pop()
            if isinstance(n, dict):
                if "k" in n:
                    if owner is not None and n is not owner:
                        self.p[id(n)] = owner
                        self.slot[id(n)] = slot
                    own, pre = n, ""
                else:
                    own, pre = owner, slot + "."
                for key, v in n.items():
                    if isinstance(v, (dict, list)):
                        stack.append((v, own, (pre + key) if pre else key))
            elif isinstance(n, list):
                for x in n:
                    if isinstance(x, (dict, list)):
                        stack.append((x, owner, slot))

    def parent(self, n):
        return self.p.get(id(n))

    def role(self, n):
        return self.slot.get(id(n))

    def ancestors(self, n):
        n = self.parent(n)
        while n is not None:
            yield n
            n = self.parent(n)


def span_contains(outer, inner):
    return (outer[0], outer[1]) <= (inner[0], inner[1]) and (inner[2], inner[3]) <= (outer[2], outer[3])


def pos_in(sp, line, col):
    return (sp[0], sp[1]) <= (line, col) and (line, col) < (sp[2], sp[3])


def norm_ws(s):
    return re.sub(r"\s+", "", s)


def bool_eval(e, atom):
    """evaluate a Rust boolean expression built from !, &&, ||, parentheses and opaque atoms; `atom(node)` gives the value of an atom"""
    k = e["k"]
    if k == "Paren":
        return bool_eval(e["expr"], atom)
    if k == "Unary" and e["op"] == "!":
        return not bool_eval(e["expr"], atom)
    if k == "Binary" and e["op"] in ("&&", "||"):
        l = bool_eval(e["lhs"] if "lhs" in e else e["left"], atom)
        r = bool_eval(e["rhs"] if "rhs" in e else e["right"], atom)
        return (l and r) if e["op"] == "&&" else (l or r)
    if k == "Lit" and e.get("value") in (True, False, "true", "false"):
        return e.get("value") in (True, "true")
    return atom(e)


def expand_bool_locals(cond, body, depth=3):
    """a copy of the boolean expression `cond` in which every atom that is an immutable local of `body` bound exactly once by
    `let x = <expr>;` is replaced by that expression (so `let is_imported = ctx.imports.contains(p); if !is_own && !is_imported`
    reads like the condition it abbreviates).  Nodes keep their spans, so facts.text still answers for every atom."""
    import copy
    lets = {}
    for l in find(body, "Local"):
        pat = l["pat"]
        if pat["k"] == "PType" and isinstance(pat.get("pat"), dict):
            pat = pat["pat"]
        if pat["k"] == "PIdent" and l.get("init") is not None and pat.get("sub") is None:
            lets.setdefault(pat["name"], []).append(None if pat.get("mut") else l["init"])

    def rec(e, d):
        k = e.get("k")
        if k == "Paren":
            return dict(e, expr=rec(e["expr"], d))
        if k == "Unary" and e["op"] == "!":
            return dict(e, expr=rec(e["expr"], d))
        if k == "Binary" and e["op"] in ("&&", "||"):
            lk, rk = ("lhs", "rhs") if "lhs" in e else ("left", "right")
            out = dict(e)
            out[lk], out[rk] = rec(e[lk], d), rec(e[rk], d)
            return out
        if k == "Path" and len(e["segs"]) == 1 and d < depth:
            inits = lets.get(e["segs"][0])
            if inits and len(inits) == 1 and inits[0] is not None:
                return {"k": "Paren", "sp": inits[0]["sp"], "expr": rec(copy.deepcopy(inits[0]), d + 1), "expanded": e["segs"][0]}
        return e
    return rec(cond, 0)


def text_with_locals(facts, rel, node, body, depth=2):
    """normalised text of `node` in which every identifier that is an immutable local of `body`, bound exactly once by
    `let x = <expr>;` (and not a parameter of a closure inside `node`), is replaced by `(<expr>)` - `let declared = &ast.package.0;
    .. declared != expected` reads `(&ast.package.0)!=expected`"""
    lets = {}
    for l in find(body, "Local"):
        pat = l["pat"]
        if pat["k"] == "PType" and isinstance(pat.get("pat"), dict):
            pat = pat["pat"]
        if pat["k"] == "PIdent" and l.get("init") is not None and pat.get("sub") is None:
            lets.setdefault(pat["name"], []).append(None if pat.get("mut") else l["init"])
    own = set()
    for c in find(node, "Closure"):
        for p_ in c.get("inputs") or []:
            own.update(pat_bindings(p_))
    t = norm_ws(facts.text(rel, node["sp"]))
    for _ in range(depth):
        changed = False
        for nm, inits in lets.items():
            if nm in own or len(inits) != 1 or inits[0] is None:
                continue
            it = inits[0]
            if it["k"] in ("Closure", "Match", "If", "Block", "Macro"):
                continue
            rep = "(" + norm_ws(facts.text(rel, it["sp"])) + ")"
            t2 = re.sub(r"(?<![A-Za-z0-9_.])" + re.escape(nm) + r"(?![A-Za-z0-9_(])(?!!\()", lambda m_: rep, t)
            if t2 != t:
                t, changed = t2, True
        if not changed:
            break
    return t


def bool_atoms(e):
    k = e["k"]
    if k == "Paren":
        return bool_atoms(e["expr"])
    if k == "Unary" and e["op"] == "!":
        return bool_atoms(e["expr"])
    if k == "Binary" and e["op"] in ("&&", "||"):
        return bool_atoms(e["lhs"] if "lhs" in e else e["left"]) + bool_atoms(e["rhs"] if "rhs" in e else e["right"])
    return [e]


def pushes_error(model, facts, rel, node):
    """the code in `node` reports an error diagnostic: it pushes a Severity::Error diagnostic itself, calls push_error / push_ice, or
    calls a helper (same file, or typer/util.rs) that is handed the diagnostics and does so"""
    t = norm_ws(facts.text(rel, node["sp"]))
    if ".push(" in t and "Severity::Error" in t:
        return True
    for c in walk(node):
        if c["k"] not in ("Call", "MethodCall"):
            continue
        nm = callee_name(c)
        if nm in ("push_error", "push_ice"):
            return True
        if not any("diagnostics" in idents(a) for a in c["args"]):
            continue
        for r2 in (rel, "crates/compiler/src/typer/util.rs"):
            try:
                hs = [h for h in model.fns(r2) if h.name == nm and h.body is not None]
            except Exception:
                hs = []
            for h in hs:
                ht = norm_ws(facts.text(r2, h.body["sp"]))
                if ".push(" in ht and "Severity::Error" in ht:
                    return True
    return False
