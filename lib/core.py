"""Shared machinery: fact cache (E2 syn trees, E1 MIR facts), obligations ledger,
known findings, evidence and replay files."""
import fcntl
import glob
import hashlib
import json
import re
import os
import shutil
import subprocess
import sys
import time

VERIF = os.path.dirname(os.path.dirname(os.path.abspath(__file__)))
REPO = os.environ.get("VERIF_REPO", "/repo")
CACHE = os.environ.get("VERIF_CACHE") or os.path.join(VERIF, ".cache")
EVIDENCE_DIR = os.environ.get("VERIF_EVIDENCE_DIR") or os.path.join(VERIF, "evidence")
SYNJSON = os.path.join(VERIF, "engines/synjson/target/release/synjson")
FACTDRV = os.path.join(VERIF, "engines/factdrv/target/release/factdrv")

WORKSPACE_CRATES = ["ast", "common_defs", "compiler", "cst", "diagnostics", "lexer", "parser", "wasm_app"]


class AnalysisIncomplete(Exception):
    """The analysis itself could not run (engine missing, tree does not build, anchor
    not found).  Never reported as a VIOLATION and never as a pass."""


def _offline_env():
    env = dict(os.environ)
    env["CARGO_NET_OFFLINE"] = "true"
    return env


def rust_sources():
    out = []
    for root, dirs, files in os.walk(os.path.join(REPO, "crates")):
        dirs[:] = [d for d in dirs if d not in ("target", "node_modules", ".git")]
        for f in files:
            if f.endswith(".rs"):
                out.append(os.path.relpath(os.path.join(root, f), REPO))
    return sorted(out)


def tree_hash():
    h = hashlib.sha256()
    paths = rust_sources()
    for extra in ("Cargo.toml", "Cargo.lock"):
        paths.append(extra)
    for root, dirs, files in os.walk(os.path.join(REPO, "crates")):
        dirs[:] = [d for d in dirs if d not in ("target", "node_modules", ".git", "tests")]
        for f in files:
            if f.endswith((".toml", ".gom")) and "/src" in root + "/" or f == "Cargo.toml":
                paths.append(os.path.relpath(os.path.join(root, f), REPO))
    for p in sorted(set(paths)):
        try:
            with open(os.path.join(REPO, p), "rb") as fh:
                data = fh.read()
        except OSError:
            continue
        h.update(p.encode())
        h.update(b"\0")
        h.update(hashlib.sha256(data).digest())
    # the engines themselves are part of the key
    for eng in (SYNJSON, FACTDRV):
        try:
            st = os.stat(eng)
            h.update(f"{eng}:{st.st_size}:{int(st.st_mtime)}".encode())
        except OSError:
            h.update(f"{eng}:absent".encode())
    return h.hexdigest()[:20]


class Lock:
    def __init__(self, name):
        os.makedirs(CACHE, exist_ok=True)
        self.path = os.path.join(CACHE, name + ".lock")

    def __enter__(self):
        self.fh = open(self.path, "w")
        fcntl.flock(self.fh, fcntl.LOCK_EX)
        return self

    def __exit__(self, *a):
        fcntl.flock(self.fh, fcntl.LOCK_UN)
        self.fh.close()


def _prune_cache(keep):
    ents = []
    for d in glob.glob(os.path.join(CACHE, "t-*")):
        if os.path.basename(d) != keep:
            ents.append((os.path.getmtime(d), d))
    ents.sort()
    # only entries nobody can still be reading: another check may be running on another tree with the same cache directory
    now = time.time()
    for mt, d in ents[:-3] if len(ents) > 3 else []:
        if now - mt > 1800:
            shutil.rmtree(d, ignore_errors=True)


class Facts:
    """Lazy access to the facts of /repo's *current* working tree."""

    def __init__(self):
        self.hash = tree_hash()
        self.dir = os.path.join(CACHE, "t-" + self.hash)
        self._syn = None
        self._mir = None
        self._src = {}
        self._consts = None
        self._raw = {}
        self.timing = {}

    # ---------------- E2: syntax trees
    def syn_dir(self):
        d = os.path.join(self.dir, "syn")
        if os.path.exists(os.path.join(d, ".done")):
            return d
        with Lock("syn"):
            if os.path.exists(os.path.join(d, ".done")):
                return d
            if not os.path.exists(SYNJSON):
                raise AnalysisIncomplete("engines/synjson not built; run ./setup.sh")
            t0 = time.time()
            shutil.rmtree(d, ignore_errors=True)
            os.makedirs(d, exist_ok=True)
            files = rust_sources()
            r = subprocess.run([SYNJSON, REPO, d] + files, capture_output=True, text=True)
            if r.returncode != 0:
                raise AnalysisIncomplete("synjson failed (source does not parse?): " + r.stderr[-2000:])
            with open(os.path.join(d, ".done"), "w") as fh:
                fh.write("\n".join(files))
            self.timing["synjson_s"] = round(time.time() - t0, 2)
            _prune_cache("t-" + self.hash)
        return d

    def syn_files(self):
        d = self.syn_dir()
        with open(os.path.join(d, ".done")) as fh:
            return [l for l in fh.read().split("\n") if l]

    def _raw_syn(self, rel):
        d = self.syn_dir()
        p = os.path.join(d, rel + ".json")
        if not os.path.exists(p):
            raise AnalysisIncomplete(f"source file {rel} not found in the tree")
        with open(p) as fh:
            return json.load(fh)

    def consts(self):
        """{NAME: Lit node} for every `const NAME: T = <literal>;` of the workspace's non-test sources whose name is defined once (or always
        with the same value).  A named constant and the literal it stands for are the same program: every rule sees the literal, in the
        trees (syn) and in span texts (text), so extracting a constant from a literal - or inlining one - changes no verdict.  Constants a
        rule asks for by name (the artifact format markers, say) stay names."""
        if self._consts is None:
            import re as _re
            named = set()
            for dname in ("rules", "lib"):
                for fn in os.listdir(os.path.join(VERIF, dname)):
                    if fn.endswith(".py"):
                        with open(os.path.join(VERIF, dname, fn), encoding="utf-8") as fh:
                            named |= set(_re.findall(r"\b[A-Z][A-Z0-9_]{2,}\b", fh.read()))
            found = {}

            def items(its):
                for it in its or []:
                    k = it.get("k")
                    if k == "Const" and not it.get("static") and isinstance(it.get("expr"), dict):
                        e = it["expr"]
                        if e.get("k") == "Unary" and e.get("op") == "-" and isinstance(e.get("expr"), dict):
                            continue
                        if self._const_expr(e):
                            found.setdefault(it["name"], []).append(e)
                    elif k in ("Mod", "Impl", "Trait") and it.get("items") is not None:
                        items(it["items"])
            for rel in self.syn_files():
                parts = rel.split("/")
                if len(parts) >= 3 and parts[2] == "src" and "/tests/" not in rel and not rel.endswith("/tests.rs"):
                    self._raw[rel] = self._raw_syn(rel)
                    items(self._raw[rel].get("items"))
            self._consts = {}
            for name, lits in found.items():
                if name in named or len({self._lit_text(l) for l in lits}) != 1:
                    continue
                self._consts[name] = lits[0]
        return self._consts

    def _inline_consts(self, node, table):
        if isinstance(node, list):
            for x in node:
                self._inline_consts(x, table)
        elif isinstance(node, dict):
            if node.get("k") == "Path" and isinstance(node.get("segs"), list) and node["segs"] and node["segs"][-1] in table and \
                    (len(node["segs"]) == 1 or node["segs"][-2] in ("Self", "self", "super", "crate") or node["segs"][-2][:1].islower()):
                import copy
                lit = copy.deepcopy(table[node["segs"][-1]])
                sp = node.get("sp")
                name = node["segs"][-1]
                node.clear()
                node.update(lit)
                node["const"] = name
                for x in self._walk_all(node):
                    x["sp"] = sp
                return
            if node.get("k") == "Const":
                return  # the definition itself keeps its shape
            # `{NAME}` captured by a format string is the constant's text
            if node.get("k") == "Lit" and node.get("lit") == "Str" and isinstance(node.get("value"), str) and "{" in node["value"]:
                node["value"] = self._subst_captures(node["value"], table)
            if node.get("k") == "Macro" and isinstance(node.get("tokens"), str) and "{" in node["tokens"]:
                node["tokens"] = self._subst_captures(node["tokens"], table)
            for v in node.values():
                if isinstance(v, (dict, list)):
                    self._inline_consts(v, table)

    def syn(self, rel):
        if self._syn is None:
            self._syn = {}
        if rel not in self._syn:
            table = self.consts()
            tree = self._raw.pop(rel, None) or self._raw_syn(rel)
            if table:
                self._inline_consts(tree, table)
            self._syn[rel] = tree
        return self._syn[rel]

    def source_lines(self, rel):
        if rel not in self._src:
            with open(os.path.join(REPO, rel), encoding="utf-8") as fh:
                self._src[rel] = fh.read().split("\n")
        return self._src[rel]

    def text(self, rel, sp):
        """source text of a span [l0,c0,l1,c1] (columns are in characters)"""
        extra = getattr(sp, "extra", None)
        if extra:
            # a call with the helper it names put in its place: the call, then the helper's statements
            plain = list(getattr(sp, "orig", None) or sp)
            return self.text(rel, plain) + " /*=*/ " + " ".join(self.text(rel, list(x)) for x in extra)
        lines = self.source_lines(rel)
        l0, c0, l1, c1 = getattr(sp, "orig", None) or sp     # an inlined helper's node: its text is where the helper is written
        if l0 == l1:
            out = lines[l0 - 1][c0:c1]
        else:
            parts = [lines[l0 - 1][c0:]] + lines[l0:l1 - 1] + [lines[l1 - 1][:c1]]
            out = "\n".join(parts)
        table = self.consts()
        if table and any(n in out for n in table):
            import re as _re
            out = self._subst_captures(out, table)
            out = _re.sub(r"(?<![A-Za-z0-9_\"])(?:(?:Self|self|super|crate|[a-z_][a-z0-9_]*)::)*(" + "|".join(map(_re.escape, sorted(table, key=len, reverse=True))) + r")(?![A-Za-z0-9_])",
                          lambda m_: self._lit_text(table[m_.group(1)]), out)
        return out

    @staticmethod
    def _subst_captures(text, table):
        import re as _re

        def rep(m_):
            lit = table.get(m_.group(1))
            if lit is None or lit.get("k") != "Lit" or lit.get("lit") not in ("Str", "Char", "Int"):
                return m_.group(0)
            return str(lit.get("value")).replace("{", "{{").replace("}", "}}")
        return _re.sub(r"(?<!\{)\{([A-Z][A-Z0-9_]*)\}(?!\})", rep, text)

    @staticmethod
    def _const_expr(e):
        if not isinstance(e, dict):
            return False
        if e.get("k") == "Lit":
            return e.get("lit") in ("Str", "Int", "Char", "Bool", "Float", "ByteStr", "Byte")
        if e.get("k") == "Tuple":
            return bool(e.get("elems")) and all(Facts._const_expr(x) for x in e["elems"])
        return False

    @staticmethod
    def _walk_all(node):
        yield node
        for v in node.values():
            if isinstance(v, dict) and "k" in v:
                yield from Facts._walk_all(v)
            elif isinstance(v, list):
                for x in v:
                    if isinstance(x, dict) and "k" in x:
                        yield from Facts._walk_all(x)

    @staticmethod
    def _lit_text(lit):
        if lit.get("k") == "Tuple":
            return "(" + ", ".join(Facts._lit_text(x) for x in lit["elems"]) + ")"
        v = lit.get("value")
        if lit.get("lit") == "Str":
            return '"' + str(v).replace("\\", "\\\\").replace('"', '\\"').replace("\n", "\\n").replace("\t", "\\t") + '"'
        if lit.get("lit") == "Char":
            return "'" + str(v) + "'"
        return str(v)

    # ---------------- E1: MIR facts
    def mir_dir(self):
        d = os.path.join(self.dir, "mir")
        if os.path.exists(os.path.join(d, ".done")):
            return d
        with Lock("mir"):
            if os.path.exists(os.path.join(d, ".done")):
                return d
            if not os.path.exists(FACTDRV):
                raise AnalysisIncomplete("engines/factdrv not built; run ./setup.sh")
            t0 = time.time()
            sysroot = subprocess.run(["rustc", "+nightly", "--print", "sysroot"], capture_output=True, text=True).stdout.strip()
            if not sysroot:
                raise AnalysisIncomplete("nightly toolchain not available")
            for attempt in (0, 1):
                shutil.rmtree(d, ignore_errors=True)
                os.makedirs(d, exist_ok=True)
                target = os.path.join(CACHE, "target-e1")
                if attempt == 1:
                    shutil.rmtree(target, ignore_errors=True)
                # force the wrapper to run on every workspace member (cargo's freshness
                # cache would otherwise replay old results without invoking it)
                for fp in glob.glob(os.path.join(target, "debug/.fingerprint/*")):
                    base = os.path.basename(fp).rsplit("-", 1)[0].replace("-", "_")
                    if base in WORKSPACE_CRATES:
                        shutil.rmtree(fp, ignore_errors=True)
                env = _offline_env()
                env.update({
                    "LD_LIBRARY_PATH": sysroot + "/lib",
                    "RUSTFLAGS": "-Zmir-opt-level=0 -Awarnings",
                    "RUSTC_WORKSPACE_WRAPPER": FACTDRV,
                    "CARGO_TARGET_DIR": target,
                    "FACTDRV_OUT": d,
                })
                r = subprocess.run(["cargo", "+nightly", "check", "--offline", "--workspace", "-q"],
                                   cwd=REPO, env=env, capture_output=True, text=True)
                got = {os.path.basename(p).rsplit("-", 1)[0] for p in glob.glob(os.path.join(d, "*.jsonl"))}
                if r.returncode == 0 and all(c in got for c in WORKSPACE_CRATES):
                    break
                if attempt == 1:
                    raise AnalysisIncomplete(
                        "E1 (cargo +nightly check with factdrv) failed or did not cover every workspace crate; "
                        f"covered={sorted(got)} rc={r.returncode}\n" + r.stderr[-3000:])
            with open(os.path.join(d, ".done"), "w") as fh:
                fh.write("ok")
            self.timing["factdrv_s"] = round(time.time() - t0, 2)
        return d

    def mir(self):
        """{'call': [...], 'fn': [...], 'assert': [...], 'adt': [...]} over all workspace crates"""
        if self._mir is None:
            d = self.mir_dir()
            out = {"call": [], "fn": [], "assert": [], "adt": []}
            seen = set()
            for p in sorted(glob.glob(os.path.join(d, "*.jsonl"))):
                with open(p) as fh:
                    for line in fh:
                        if line in seen:
                            continue
                        seen.add(line)
                        rec = json.loads(line)
                        out[rec["t"]].append(rec)
            self._mir = out
        return self._mir


# ------------------------------------------------------------------------------------
class Obligation:
    __slots__ = ("rule", "key", "ok", "site", "detail", "witness", "inspected")

    def __init__(self, rule, key, ok, site, detail, witness, inspected):
        self.rule, self.key, self.ok, self.site = rule, key, ok, site
        self.detail, self.witness, self.inspected = detail, witness, inspected

    def as_json(self):
        d = {"rule": self.rule, "key": self.key, "verdict": "holds" if self.ok else "VIOLATED"}
        if self.site:
            d["site"] = self.site
        if self.detail:
            d["detail"] = self.detail
        if self.witness and not self.ok:
            d["witness"] = self.witness
        return d


class Run:
    """Collects obligations for one property."""

    def __init__(self, prop, tier, facts):
        self.prop, self.tier, self.facts = prop, tier, facts
        self.obs = []
        self.rules = {}
        self.floors = []
        self.assumptions = []
        self.anchors = []
        self.notes = []
        self.skipped = []

    def try_rule(self, fn, *args):
        """evaluate one rule function; if its analysis cannot proceed (anchor not found, floor missed) the rule is recorded as
        not evaluated instead of aborting the whole property"""
        n0, k0, f0 = len(self.obs), len(self.skipped), len(self.floors)
        r = self._try_once(fn, *args)
        # Second reading.  A rule about an orchestrator of the pipeline (link_cores) that does not hold - or cannot be evaluated - on the
        # function as written is evaluated once more on the function with the private helpers that only it calls put back in place
        # (lib.syn.INLINE_ORCHESTRATORS): splitting an orchestrator into phases is a refactoring, and both readings are readings of the
        # same program.  The second reading replaces the first only if everything the rule asks holds in it.
        from . import syn as _syn
        bad = [o for o in self.obs[n0:] if not o.ok]   # (a recorded finding among them is reproduced in either reading)
        touched = any(nm in (o.key + " " + (o.detail or "")) for o in bad for nm in _syn.ORCHESTRATORS) or \
            any(nm in sk["reason"] for sk in self.skipped[k0:] for nm in _syn.ORCHESTRATORS)
        if touched and not _syn.INLINE_ORCHESTRATORS:
            first = (self.obs[n0:], self.skipped[k0:], self.floors[f0:])
            del self.obs[n0:], self.skipped[k0:], self.floors[f0:]
            _syn.INLINE_ORCHESTRATORS = True
            try:
                r2 = self._try_once(fn, *args)
            finally:
                _syn.INLINE_ORCHESTRATORS = False
            known = {canon_key(k["key"]) for k in load_known() if k.get("status") == "known"}
            if any(not o.ok and canon_key(o.key) not in known for o in self.obs[n0:]) or len(self.skipped) > k0:
                del self.obs[n0:], self.skipped[k0:], self.floors[f0:]
                self.obs.extend(first[0]); self.skipped.extend(first[1]); self.floors.extend(first[2])
            else:
                self.notes.append(f"{getattr(fn, '__name__', fn)}: holds on the orchestrator read with its carved-out phases in place (second reading)")
                r = r2
        return r

    def _try_once(self, fn, *args):
        try:
            return fn(self, *args)
        except AnalysisIncomplete as e:
            self.skipped.append({"rule_fn": getattr(fn, "__name__", str(fn)), "reason": str(e)})
            return None

    def rule(self, rid, text):
        self.rules[rid] = text

    def ob(self, rule, key, ok, site=None, detail="", witness=None, inspected=1):
        """record one obligation; key identifies the construct WITHOUT positions"""
        self.obs.append(Obligation(rule, f"{rule}|{key}", bool(ok), site, detail, witness, inspected))
        return bool(ok)

    def floor(self, name, value, minimum):
        """coverage floor: guards against a rule that has (almost) nothing left to look at.  `minimum` is the number counted on the tree the
        rule was written for; the rule counts as evaluated while at least a third of that is still found - merging three copies of a
        block into one helper, or folding sibling arms, is a refactoring, not a reason to distrust the rule (neutral round 2)"""
        counted = minimum
        minimum = min(minimum, max(1, (minimum + 2) // 3)) if minimum > 0 else 0
        self.floors.append({"name": name, "value": value, "minimum": minimum, "counted_when_written": counted})
        if value < minimum:
            raise AnalysisIncomplete(f"coverage floor missed: {name} = {value} < {minimum}")

    def anchor(self, what, where):
        self.anchors.append({"anchor": what, "found_at": where})

    def assume(self, text):
        if text not in self.assumptions:
            self.assumptions.append(text)


def site(rel, sp):
    if sp is None:
        return rel
    return f"{rel}:{sp[0]}"


def load_known():
    p = os.path.join(VERIF, "known_findings.json")
    with open(p) as fh:
        data = json.load(fh)
    return data.get("findings", [])


def canon_key(key):
    """`R07.2|compiler::lift::State::ty_contains_closure|TVec` -> `R07.2|compiler::lift::ty_contains_closure|TVec`"""
    def path(m):
        segs = m.group(0).split("::")
        return "::".join([x for x in segs[:-1] if not x[:1].isupper()] + segs[-1:])
    return re.sub(r"[A-Za-z_][A-Za-z0-9_]*(?:::[A-Za-z_][A-Za-z0-9_]*)+", path, key)


def finish(run, t0, explanation, seed=0, replay_key=None):
    """subtract known findings, print lines, write evidence, return exit code"""
    # a finding is identified by its obligation key; clauses shared between properties (e.g. R07.2 evaluated under C03)
    # carry the same key, so the entry applies wherever that clause is evaluated
    known = load_known()
    # a finding names the function it sits in; the *type* whose impl block holds that function is not part of its identity (moving a
    # method to another impl block - neutral patch N26-h - leaves the finding what it was): keys are compared with the CamelCase
    # segments inside a `::` path dropped, on both sides
    known_keys = {canon_key(k["key"]): k for k in known if k.get("status") == "known"}
    viol = [o for o in run.obs if not o.ok]
    unlisted = [o for o in viol if canon_key(o.key) not in known_keys]
    listed = [o for o in viol if canon_key(o.key) in known_keys]
    seen = set()
    for o in listed:
        if o.key in seen:
            continue
        seen.add(o.key)
        print(f"KNOWN-FINDING: property={run.prop} {o.key} :: {known_keys[canon_key(o.key)].get('what_fails', o.detail)}")
    os.makedirs(os.path.join(EVIDENCE_DIR, "replay"), exist_ok=True)
    # remove stale replay files of this property
    for p in glob.glob(os.path.join(EVIDENCE_DIR, "replay", f"{run.prop}-*.json")):
        try:
            os.remove(p)
        except OSError:
            pass
    rc = 0
    for i, o in enumerate(_dedup(unlisted)):
        rp = os.path.join(EVIDENCE_DIR, "replay", f"{run.prop}-{i}.json")
        with open(rp, "w") as fh:
            json.dump({"property": run.prop, "key": o.key, "rule": o.rule, "rule_text": run.rules.get(o.rule, ""),
                       "site_today": o.site, "detail": o.detail, "witness": o.witness}, fh, indent=1)
        print(f"VIOLATION property={run.prop} replay={rp}")
        print(f"  rule {o.rule}: {run.rules.get(o.rule, '')}")
        print(f"  at {o.site}: {o.key}")
        if o.detail:
            print(f"  {o.detail}")
        if o.witness:
            print(f"  witness: {o.witness}")
        rc = 1
    distinct = {o.key for o in run.obs if o.inspected}
    per_rule = {}
    for o in run.obs:
        r = per_rule.setdefault(o.rule, {"rule": o.rule, "text": run.rules.get(o.rule, ""), "obligations": 0, "discharged": 0})
        r["obligations"] += 1
        r["discharged"] += 1 if o.ok else 0
    samples = []
    byrule = {}
    for o in run.obs:
        byrule.setdefault(o.rule, []).append(o)
    for r, lst in byrule.items():
        bad = [o for o in lst if not o.ok][:6]
        good = [o for o in lst if o.ok][:4]
        samples.extend(o.as_json() for o in bad + good)
    ev = {
        "property_id": run.prop,
        "tier": run.tier,
        "seed": seed,
        "level": "other",
        "coverage": {
            "explanation": explanation,
            "evaluations": len(run.obs),
            "distinct_nontrivial": len(distinct),
            "rule": "one evaluation = one static obligation (rule instance at a construct of /repo's current source); "
                    "distinct = distinct position-free obligation keys; non-trivial = the evaluation inspected at least one "
                    "construct of the tree (vacuous instances are not counted)",
            "samples": samples[:60],
            "obligations": len(run.obs),
            "discharged": len([o for o in run.obs if o.ok]),
            "known_findings_reproduced": sorted(seen),
            "rules": list(per_rule.values()),
            "anchors": run.anchors,
            "floors": run.floors,
            "tree_hash": run.facts.hash,
            "engine_timing": run.facts.timing,
            "notes": run.notes,
            "rules_not_evaluated": run.skipped,
            **getattr(run, "extra_coverage", {}),
        },
        "assumptions": run.assumptions,
        "wall_s": round(time.time() - t0, 2),
        "violations": len(_dedup(unlisted)),
    }
    with open(os.path.join(EVIDENCE_DIR, f"{run.prop}.json"), "w") as fh:
        json.dump(ev, fh, indent=1)
    return rc


def _dedup(obs):
    seen, out = set(), []
    for o in obs:
        if o.key in seen:
            continue
        seen.add(o.key)
        out.append(o)
    return out
