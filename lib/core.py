"""Shared machinery: fact cache (E2 syn trees, E1 MIR facts), obligations ledger,
known findings, evidence and replay files."""
import fcntl
import glob
import hashlib
import json
import os
import shutil
import subprocess
import sys
import time

VERIF = os.path.dirname(os.path.dirname(os.path.abspath(__file__)))
REPO = os.environ.get("VERIF_REPO", "/repo")
CACHE = os.environ.get("VERIF_CACHE") or os.path.join(VERIF, ".cache")
EVIDENCE_DIR = os.environ.get("VERIF_EVIDENCE_DIR") or os.path.join(VERIF, "evidence")
SYNJSON = os.path.join(VERIF, "engines/synjson/target/release/synjson")
FACTDRV = os.path.join(VERIF, "engines/factdrv/target/release/factdrv")

WORKSPACE_CRATES = ["ast", "common_defs", "compiler", "cst", "diagnostics", "lexer", "parser", "wasm_app"]


class AnalysisIncomplete(Exception):
    """The analysis itself could not run (engine missing, tree does not build, anchor
    not found).  Never reported as a VIOLATION and never as a pass."""


def _offline_env():
    env = dict(os.environ)
    env["CARGO_NET_OFFLINE"] = "true"
    return env


def rust_sources():
    out = []
    for root, dirs, files in os.walk(os.path.join(REPO, "crates")):
        dirs[:] = [d for d in dirs if d not in ("target", "node_modules", ".git")]
        for f in files:
            if f.endswith(".rs"):
                out.append(os.path.relpath(os.path.join(root, f), REPO))
    return sorted(out)


def tree_hash():
    h = hashlib.sha256()
    paths = rust_sources()
    for extra in ("Cargo.toml", "Cargo.lock"):
        paths.append(extra)
    for root, dirs, files in os.walk(os.path.join(REPO, "crates")):
        dirs[:] = [d for d in dirs if d not in ("target", "node_modules", ".git", "tests")]
        for f in files:
            if f.endswith((".toml", ".gom")) and "/src" in root + "/" or f == "Cargo.toml":
                paths.append(os.path.relpath(os.path.join(root, f), REPO))
    for p in sorted(set(paths)):
        try:
            with open(os.path.join(REPO, p), "rb") as fh:
                data = fh.read()
        except OSError:
            continue
        h.update(p.encode())
        h.update(b"\0")
        h.update(hashlib.sha256(data).digest())
    # the engines themselves are part of the key
    for eng in (SYNJSON, FACTDRV):
        try:
            st = os.stat(eng)
            h.update(f"{eng}:{st.st_size}:{int(st.st_mtime)}".encode())
        except OSError:
            h.update(f"{eng}:absent".encode())
    return h.hexdigest()[:20]


class Lock:
    def __init__(self, name):
        os.makedirs(CACHE, exist_ok=True)
        self.path = os.path.join(CACHE, name + ".lock")

    def __enter__(self):
        self.fh = open(self.path, "w")
        fcntl.flock(self.fh, fcntl.LOCK_EX)
        return self

    def __exit__(self, *a):
        fcntl.flock(self.fh, fcntl.LOCK_UN)
        self.fh.close()


def _prune_cache(keep):
    ents = []
    for d in glob.glob(os.path.join(CACHE, "t-*")):
        if os.path.basename(d) != keep:
            ents.append((os.path.getmtime(d), d))
    ents.sort()
    # only entries nobody can still be reading: another check may be running on another tree with the same cache directory
    now = time.time()
    for mt, d in ents[:-3] if len(ents) > 3 else []:
        if now - mt > 1800:
            shutil.rmtree(d, ignore_errors=True)


class Facts:
    """Lazy access to the facts of /repo's *current* working tree."""

    def __init__(self):
        self.hash = tree_hash()
        self.dir = os.path.join(CACHE, "t-" + self.hash)
        self._syn = None
        self._mir = None
        self._src = {}
        self.timing = {}

    # ---------------- E2: syntax trees
    def syn_dir(self):
        d = os.path.join(self.dir, "syn")
        if os.path.exists(os.path.join(d, ".done")):
            return d
        with Lock("syn"):
            if os.path.exists(os.path.join(d, ".done")):
                return d
            if not os.path.exists(SYNJSON):
                raise AnalysisIncomplete("engines/synjson not built; run ./setup.sh")
            t0 = time.time()
            shutil.rmtree(d, ignore_errors=True)
            os.makedirs(d, exist_ok=True)
            files = rust_sources()
            r = subprocess.run([SYNJSON, REPO, d] + files, capture_output=True, text=True)
            if r.returncode != 0:
                raise AnalysisIncomplete("synjson failed (source does not parse?): " + r.stderr[-2000:])
            with open(os.path.join(d, ".done"), "w") as fh:
                fh.write("\n".join(files))
            self.timing["synjson_s"] = round(time.time() - t0, 2)
            _prune_cache("t-" + self.hash)
        return d

    def syn_files(self):
        d = self.syn_dir()
        with open(os.path.join(d, ".done")) as fh:
            return [l for l in fh.read().split("\n") if l]

    def syn(self, rel):
        if self._syn is None:
            self._syn = {}
        if rel not in self._syn:
            d = self.syn_dir()
            p = os.path.join(d, rel + ".json")
            if not os.path.exists(p):
                raise AnalysisIncomplete(f"source file {rel} not found in the tree")
            with open(p) as fh:
                self._syn[rel] = json.load(fh)
        return self._syn[rel]

    def source_lines(self, rel):
        if rel not in self._src:
            with open(os.path.join(REPO, rel), encoding="utf-8") as fh:
                self._src[rel] = fh.read().split("\n")
        return self._src[rel]

    def text(self, rel, sp):
        """source text of a span [l0,c0,l1,c1] (columns are in characters)"""
        lines = self.source_lines(rel)
        l0, c0, l1, c1 = sp
        if l0 == l1:
            return lines[l0 - 1][c0:c1]
        parts = [lines[l0 - 1][c0:]] + lines[l0:l1 - 1] + [lines[l1 - 1][:c1]]
        return "\n".join(parts)

    # ---------------- E1: MIR facts
    def mir_dir(self):
        d = os.path.join(self.dir, "mir")
        if os.path.exists(os.path.join(d, ".done")):
            return d
        with Lock("mir"):
            if os.path.exists(os.path.join(d, ".done")):
                return d
            if not os.path.exists(FACTDRV):
                raise AnalysisIncomplete("engines/factdrv not built; run ./setup.sh")
            t0 = time.time()
            sysroot = subprocess.run(["rustc", "+nightly", "--print", "sysroot"], capture_output=True, text=True).stdout.strip()
            if not sysroot:
                raise AnalysisIncomplete("nightly toolchain not available")
            for attempt in (0, 1):
                shutil.rmtree(d, ignore_errors=True)
                os.makedirs(d, exist_ok=True)
                target = os.path.join(CACHE, "target-e1")
                if attempt == 1:
                    shutil.rmtree(target, ignore_errors=True)
                # force the wrapper to run on every workspace member (cargo's freshness
                # cache would otherwise replay old results without invoking it)
                for fp in glob.glob(os.path.join(target, "debug/.fingerprint/*")):
                    base = os.path.basename(fp).rsplit("-", 1)[0].replace("-", "_")
                    if base in WORKSPACE_CRATES:
                        shutil.rmtree(fp, ignore_errors=True)
                env = _offline_env()
                env.update({
                    "LD_LIBRARY_PATH": sysroot + "/lib",
                    "RUSTFLAGS": "-Zmir-opt-level=0 -Awarnings",
                    "RUSTC_WORKSPACE_WRAPPER": FACTDRV,
                    "CARGO_TARGET_DIR": target,
                    "FACTDRV_OUT": d,
                })
                r = subprocess.run(["cargo", "+nightly", "check", "--offline", "--workspace", "-q"],
                                   cwd=REPO, env=env, capture_output=True, text=True)
                got = {os.path.basename(p).rsplit("-", 1)[0] for p in glob.glob(os.path.join(d, "*.jsonl"))}
                if r.returncode == 0 and all(c in got for c in WORKSPACE_CRATES):
                    break
                if attempt == 1:
                    raise AnalysisIncomplete(
                        "E1 (cargo +nightly check with factdrv) failed or did not cover every workspace crate; "
                        f"covered={sorted(got)} rc={r.returncode}\n" + r.stderr[-3000:])
            with open(os.path.join(d, ".done"), "w") as fh:
                fh.write("ok")
            self.timing["factdrv_s"] = round(time.time() - t0, 2)
        return d

    def mir(self):
        """{'call': [...], 'fn': [...], 'assert': [...], 'adt': [...]} over all workspace crates"""
        if self._mir is None:
            d = self.mir_dir()
            out = {"call": [], "fn": [], "assert": [], "adt": []}
            seen = set()
            for p in sorted(glob.glob(os.path.join(d, "*.jsonl"))):
                with open(p) as fh:
                    for line in fh:
                        if line in seen:
                            continue
                        seen.add(line)
                        rec = json.loads(line)
                        out[rec["t"]].append(rec)
            self._mir = out
        return self._mir


# ------------------------------------------------------------------------------------
class Obligation:
    __slots__ = ("rule", "key", "ok", "site", "detail", "witness", "inspected")

    def __init__(self, rule, key, ok, site, detail, witness, inspected):
        self.rule, self.key, self.ok, self.site = rule, key, ok, site
        self.detail, self.witness, self.inspected = detail, witness, inspected

    def as_json(self):
        d = {"rule": self.rule, "key": self.key, "verdict": "holds" if self.ok else "VIOLATED"}
        if self.site:
            d["site"] = self.site
        if self.detail:
            d["detail"] = self.detail
        if self.witness and not self.ok:
            d["witness"] = self.witness
        return d


class Run:
    """Collects obligations for one property."""

    def __init__(self, prop, tier, facts):
        self.prop, self.tier, self.facts = prop, tier, facts
        self.obs = []
        self.rules = {}
        self.floors = []
        self.assumptions = []
        self.anchors = []
        self.notes = []
        self.skipped = []

    def try_rule(self, fn, *args):
        """evaluate one rule function; if its analysis cannot proceed (anchor not found, floor missed) the rule is recorded as
        not evaluated instead of aborting the whole property"""
        try:
            return fn(self, *args)
        except AnalysisIncomplete as e:
            self.skipped.append({"rule_fn": getattr(fn, "__name__", str(fn)), "reason": str(e)})
            return None

    def rule(self, rid, text):
        self.rules[rid] = text

    def ob(self, rule, key, ok, site=None, detail="", witness=None, inspected=1):
        """record one obligation; key identifies the construct WITHOUT positions"""
        self.obs.append(Obligation(rule, f"{rule}|{key}", bool(ok), site, detail, witness, inspected))
        return bool(ok)

    def floor(self, name, value, minimum):
        self.floors.append({"name": name, "value": value, "minimum": minimum})
        if value < minimum:
            raise AnalysisIncomplete(f"coverage floor missed: {name} = {value} < {minimum}")

    def anchor(self, what, where):
        self.anchors.append({"anchor": what, "found_at": where})

    def assume(self, text):
        if text not in self.assumptions:
            self.assumptions.append(text)


def site(rel, sp):
    if sp is None:
        return rel
    return f"{rel}:{sp[0]}"


def load_known():
    p = os.path.join(VERIF, "known_findings.json")
    with open(p) as fh:
        data = json.load(fh)
    return data.get("findings", [])


def finish(run, t0, explanation, seed=0, replay_key=None):
    """subtract known findings, print lines, write evidence, return exit code"""
    # a finding is identified by its obligation key; clauses shared between properties (e.g. R07.2 evaluated under C03)
    # carry the same key, so the entry applies wherever that clause is evaluated
    known = load_known()
    known_keys = {k["key"]: k for k in known if k.get("status") == "known"}
    viol = [o for o in run.obs if not o.ok]
    unlisted = [o for o in viol if o.key not in known_keys]
    listed = [o for o in viol if o.key in known_keys]
    seen = set()
    for o in listed:
        if o.key in seen:
            continue
        seen.add(o.key)
        print(f"KNOWN-FINDING: property={run.prop} {o.key} :: {known_keys[o.key].get('what_fails', o.detail)}")
    os.makedirs(os.path.join(EVIDENCE_DIR, "replay"), exist_ok=True)
    # remove stale replay files of this property
    for p in glob.glob(os.path.join(EVIDENCE_DIR, "replay", f"{run.prop}-*.json")):
        try:
            os.remove(p)
        except OSError:
            pass
    rc = 0
    for i, o in enumerate(_dedup(unlisted)):
        rp = os.path.join(EVIDENCE_DIR, "replay", f"{run.prop}-{i}.json")
        with open(rp, "w") as fh:
            json.dump({"property": run.prop, "key": o.key, "rule": o.rule, "rule_text": run.rules.get(o.rule, ""),
                       "site_today": o.site, "detail": o.detail, "witness": o.witness}, fh, indent=1)
        print(f"VIOLATION property={run.prop} replay={rp}")
        print(f"  rule {o.rule}: {run.rules.get(o.rule, '')}")
        print(f"  at {o.site}: {o.key}")
        if o.detail:
            print(f"  {o.detail}")
        if o.witness:
            print(f"  witness: {o.witness}")
        rc = 1
    distinct = {o.key for o in run.obs if o.inspected}
    per_rule = {}
    for o in run.obs:
        r = per_rule.setdefault(o.rule, {"rule": o.rule, "text": run.rules.get(o.rule, ""), "obligations": 0, "discharged": 0})
        r["obligations"] += 1
        r["discharged"] += 1 if o.ok else 0
    samples = []
    byrule = {}
    for o in run.obs:
        byrule.setdefault(o.rule, []).append(o)
    for r, lst in byrule.items():
        bad = [o for o in lst if not o.ok][:6]
        good = [o for o in lst if o.ok][:4]
        samples.extend(o.as_json() for o in bad + good)
    ev = {
        "property_id": run.prop,
        "tier": run.tier,
        "seed": seed,
        "level": "other",
        "coverage": {
            "explanation": explanation,
            "evaluations": len(run.obs),
            "distinct_nontrivial": len(distinct),
            "rule": "one evaluation = one static obligation (rule instance at a construct of /repo's current source); "
                    "distinct = distinct position-free obligation keys; non-trivial = the evaluation inspected at least one "
                    "construct of the tree (vacuous instances are not counted)",
            "samples": samples[:60],
            "obligations": len(run.obs),
            "discharged": len([o for o in run.obs if o.ok]),
            "known_findings_reproduced": sorted(seen),
            "rules": list(per_rule.values()),
            "anchors": run.anchors,
            "floors": run.floors,
            "tree_hash": run.facts.hash,
            "engine_timing": run.facts.timing,
            "notes": run.notes,
            "rules_not_evaluated": run.skipped,
            **getattr(run, "extra_coverage", {}),
        },
        "assumptions": run.assumptions,
        "wall_s": round(time.time() - t0, 2),
        "violations": len(_dedup(unlisted)),
    }
    with open(os.path.join(EVIDENCE_DIR, f"{run.prop}.json"), "w") as fh:
        json.dump(ev, fh, indent=1)
    return rc


def _dedup(obs):
    seen, out = set(), []
    for o in obs:
        if o.key in seen:
            continue
        seen.add(o.key)
        out.append(o)
    return out
