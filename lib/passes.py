"""Generic analyses over 'one big match' pass/traversal functions (G-COVER, G-CHILD, G-HOMO)."""
import re
from . import syn as S

IR_ENUMS = {"Expr", "MonoExpr", "LiftExpr", "CExpr", "AExpr", "ImmExpr", "Ty", "Stmt", "GoType", "Pat", "TypeExpr"}


def is_child_type(ty, enum_names):
    """field type carries sub-terms of an IR enum (by name mention)"""
    t = ty.replace(" ", "")
    for en in enum_names:
        if re.search(r"(?<![A-Za-z0-9_])" + re.escape(en) + r"(?![A-Za-z0-9_])", t):
            return True
    return False


def child_fields(variant, own_enum, extra=()):
    """names (or tuple indices as str) of fields whose type mentions the enum itself / Arm / Block / another IR enum of the same stage"""
    names = {own_enum, "Arm", "Block", "Self"} | set(extra)
    out = []
    for i, f in enumerate(variant["fields"]):
        nm = f["name"] if f["name"] is not None else str(i)
        if is_child_type(f["ty"], names):
            out.append(nm)
    return out


class Traversal:
    __slots__ = ("fn", "match", "enum", "enum_name", "covered", "catch", "arms")

    def __init__(self, fn, match, enum, enum_name, covered, catch, arms):
        self.fn, self.match, self.enum, self.enum_name = fn, match, enum, enum_name
        self.covered, self.catch, self.arms = covered, catch, arms

    @property
    def key(self):
        return f"{self.fn.qual}|{self.enum_name}"


def glob_variants(model, rel):
    """variant name -> enum def, for `use path::Enum::*` imports of the file"""
    out = {}
    for path, alias, glob in model.uses(rel):
        if glob and path and path[-1][:1].isupper():
            cands = [e for e in model.enums() if e["name"] == path[-1] and (len(path) < 2 or e["mod"][-1] == path[-2])]
            if len(cands) == 1:
                for v in cands[0]["variants"]:
                    out[v["name"]] = cands[0]
    return out


def match_profile(m, globmap=None):
    """{enum name: {variant: [(arm, alt),…]}}, catch-all arms"""
    names, catch = {}, []
    for arm in m["arms"]:
        for alt in S.pat_alts(arm["pat"]):
            h = S.pat_head(alt)
            if h[0] == "variant" and len(h[1]) >= 2:
                names.setdefault(h[1][-2], {}).setdefault(h[1][-1], []).append((arm, alt))
            elif h[0] == "variant" and globmap and h[1][-1] in globmap:
                names.setdefault(globmap[h[1][-1]]["name"], {}).setdefault(h[1][-1], []).append((arm, alt))
            elif h[0] == "any" and arm.get("guard") is None:
                catch.append(arm)
    return names, catch


def discover(model, files_prefix="crates/compiler/src", min_cover=5, enums=IR_ENUMS, include_pprint=False):
    out = []
    globs = {}
    for fn in model.fns():
        if not fn.file.startswith(files_prefix) or fn.body is None:
            continue
        if not include_pprint and "/pprint/" in fn.file:
            continue
        gm = globs.setdefault(fn.file, glob_variants(model, fn.file))
        for m in S.find(fn.body, "Match"):
            names, catch = match_profile(m, gm)
            for en, vs in names.items():
                if en in enums and len(vs) >= min_cover:
                    ed = None
                    first = next(iter(vs))
                    if first in gm and gm[first]["name"] == en and all(v in gm for v in vs):
                        ed = gm[first]
                    else:
                        ed = model.resolve_enum(fn.file, en, list(vs))
                    if ed is None:
                        continue
                    out.append(Traversal(fn, m, ed, en, vs, catch, m["arms"]))
    return out


def self_recursive(fn):
    return any(True for c in S.calls(fn.body, fn.name))


def arm_field_bindings(alt):
    """for a variant pattern alternative: ({field: binding name or None if `_`}, has_rest)"""
    alt = S.strip_refs(alt)
    out = {}
    rest = False
    if alt["k"] == "PStruct":
        rest = alt["rest"]
        for f in alt["fields"]:
            p = S.strip_refs(f["pat"])
            if p["k"] == "PIdent" and p.get("sub") is None:
                out[f["name"]] = p["name"]
            elif p["k"] == "PWild":
                out[f["name"]] = None
            else:
                out[f["name"]] = tuple(S.pat_bindings(p)) or None
    elif alt["k"] == "PTupleStruct":
        i = 0
        for p in alt["elems"]:
            p = S.strip_refs(p)
            if p["k"] == "PRest":
                rest = True
                continue
            if p["k"] == "PIdent" and p.get("sub") is None:
                out[str(i)] = p["name"]
            elif p["k"] == "PWild":
                out[str(i)] = None
            else:
                out[str(i)] = tuple(S.pat_bindings(p)) or None
            i += 1
    return out, rest


def origins(arm_body, seeds, extra_roots=(), skip=()):
    """Def-use closure inside one arm: map variable -> set of seed names it derives from.
    seeds: iterable of names (child bindings).  Handles let, closure parameters (continuation style and iterator
    adaptors), for loops, if-let / match bindings."""
    org = {s: {s} for s in seeds}

    def of_expr(e):
        out = set()
        for i in S.idents(e):
            out |= org.get(i, set())
        return out

    changed = True
    rounds = 0
    while changed and rounds < 8:
        changed = False
        rounds += 1
        for n in S.walk(arm_body):
            k = n["k"]
            if any(n is x for x in skip):
                continue
            binds = []
            src = set()
            if k == "Local" and n.get("init") is not None:
                binds = S.pat_bindings(n["pat"])
                src = of_expr(n["init"])
            elif k == "For":
                binds = S.pat_bindings(n["pat"])
                src = of_expr(n["iter"])
            elif k == "Let":
                binds = S.pat_bindings(n["pat"])
                src = of_expr(n["expr"])
            elif k == "Match":
                src = of_expr(n["scrut"])
                for arm in n["arms"]:
                    for b in S.pat_bindings(arm["pat"]):
                        if not src <= org.get(b, set()):
                            org.setdefault(b, set()).update(src)
                            changed = True
                continue
            elif k in ("Call", "MethodCall"):
                clos = [a for a in n["args"] if a["k"] == "Closure" or (a["k"] == "Call" and a["args"] and a["args"][0]["k"] == "Closure")]
                if not clos:
                    continue
                others = set()
                if k == "MethodCall":
                    others |= of_expr(n["recv"])
                for a in n["args"]:
                    if a in clos:
                        continue
                    others |= of_expr(a)
                for c in clos:
                    cl = c if c["k"] == "Closure" else c["args"][0]
                    for p in cl["inputs"]:
                        for b in S.pat_bindings(p):
                            if not others <= org.get(b, set()):
                                org.setdefault(b, set()).update(others)
                                changed = True
                continue
            for b in binds:
                if b in seeds:
                    continue
                if not src <= org.get(b, set()):
                    org.setdefault(b, set()).update(src)
                    changed = True
    return org, of_expr


def shape_conditional_only(body, name):
    """the binding `name` (a sub-term of the matched node) is handed on only under a test of its own shape: every use of it outside
    conditions lies in a branch of an `if` whose condition mentions it, and some such `if` has a way through (a missing or other branch)
    that never mentions it.  Returns the offending If node or None.  `if let` / `matches!` / method tests all count as conditions."""
    par = S.Parents(body)
    uses = [n for n in S.walk(body) if n["k"] == "Path" and n["segs"] == [name]]
    if not uses:
        return None
    guilty = None
    for u in uses:
        chain = [u] + list(par.ancestors(u))
        in_cond = False
        guarded = None
        for child, anc in zip(chain, chain[1:]):
            if anc["k"] != "If":
                continue
            role = par.role(child)
            if role == "cond":
                in_cond = True
                break
            if name in S.idents(anc["cond"]):
                other = anc.get("else") if role == "then" else anc.get("then")
                if other is None or name not in S.idents(other):
                    guarded = anc
        if in_cond:
            continue
        if guarded is None:
            return None        # an unconditional use exists
        guilty = guarded
    return guilty
