"""G-WIDTH: numeric width tags in identifiers / literals."""
import re

_TAG = re.compile(r"(?<![a-z])(U[Ii]nt|[Uu]int|[Ii]nt|[Ff]loat)(8|16|32|64)(?![0-9])|(?<![A-Za-z0-9_])([iuf])(8|16|32|64)(?![0-9A-Za-z_])")


def tags(text):
    out = set()
    for m in _TAG.finditer(text):
        if m.group(1):
            k = m.group(1).lower()
            k = {"int": "i", "uint": "u", "float": "f"}[k]
            out.add(k + m.group(2))
        else:
            out.add(m.group(3) + m.group(4))
    return out
