"""Audit of traversals over tast::Ty (G-COVER for types): which type formers does each traversal handle explicitly."""
import re
from . import syn as S
from .core import AnalysisIncomplete

TAST = "crates/compiler/src/tast.rs"


def ty_enum(model):
    return model.enum("Ty", TAST)


def child_variants(model):
    """{variant: [child field names]} for Ty variants that contain types"""
    out = {}
    for v in ty_enum(model)["variants"]:
        kids = []
        for i, f in enumerate(v["fields"]):
            if re.search(r"(?<![A-Za-z0-9_])Ty(?![A-Za-z0-9_])", f["ty"]):
                kids.append(f["name"] if f["name"] is not None else str(i))
        if kids:
            out[v["name"]] = kids
    return out


def all_variants(model):
    return [v["name"] for v in ty_enum(model)["variants"]]


class TyTrav:
    def __init__(self, fn, match, kind, covered, catch):
        self.fn, self.match, self.kind, self.covered, self.catch = fn, match, kind, covered, catch


def _ty_variant(p):
    h = S.pat_head(p)
    if h[0] == "variant" and len(h[1]) >= 2 and h[1][-2] == "Ty":
        return h[1][-1]
    return None


def profile(m):
    """kind, covered {variant: [(arm, alt)]}, catch arms.  kind 'pair': diagonal coverage of 2-tuples."""
    scr = m["scrut"]
    pair = scr["k"] == "Tuple" and len(scr["elems"]) == 2
    covered, catch = {}, []
    left_any = {}
    for arm in m["arms"]:
        for alt in S.pat_alts(arm["pat"]):
            a = S.strip_refs(alt)
            if pair and a["k"] == "PTuple" and len(a["elems"]) == 2:
                l, r = _ty_variant(a["elems"][0]), _ty_variant(a["elems"][1])
                if l and r and l == r:
                    covered.setdefault(l, []).append((arm, alt))
                elif l and S.pat_head(a["elems"][1])[0] == "any":
                    left_any.setdefault(l, []).append((arm, alt))
                elif r and S.pat_head(a["elems"][0])[0] == "any":
                    left_any.setdefault(r, []).append((arm, alt))
                elif S.pat_head(a["elems"][0])[0] == "any" and S.pat_head(a["elems"][1])[0] == "any" and arm.get("guard") is None:
                    catch.append(arm)
            else:
                v = _ty_variant(a)
                if v:
                    covered.setdefault(v, []).append((arm, alt))
                elif S.pat_head(a)[0] == "any" and arm.get("guard") is None:
                    catch.append(arm)
    return ("pair" if pair else "single"), covered, catch, left_any


def discover(model, prefix="crates/compiler/src"):
    out = []
    for fn in model.fns():
        if not fn.file.startswith(prefix) or fn.body is None or "/pprint/" in fn.file or "/tests/" in fn.file:
            continue
        takes_ty = any((not p["self"]) and re.search(r"(?<![A-Za-z0-9_])Ty(?![A-Za-z0-9_<])", p["ty"] or "") for p in fn.params())
        if not takes_ty and not (fn.impl == "Ty"):
            continue
        rec = any(True for _ in S.calls(fn.body, fn.name))
        if not rec:
            continue
        best = None
        for m in S.find(fn.body, "Match"):
            kind, cov, catch, la = profile(m)
            if cov and (best is None or len(cov) > len(best.covered)):
                best = TyTrav(fn, m, kind, cov, catch)
                best.left_any = la
        if best is not None:
            out.append(best)
    return out
