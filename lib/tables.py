"""Table extraction (G-TABLE): token kinds, T! macro, syntax kinds, binding powers, operator maps."""
import re
from . import syn as S
from .core import AnalysisIncomplete

LEXER = "crates/lexer/src/lib.rs"
SYNTAX = "crates/parser/src/syntax.rs"
EXPR = "crates/parser/src/expr.rs"
LOWER = "crates/ast/src/lower.rs"
DEFS = "crates/common-defs/src/lib.rs"
GOC = "crates/compiler/src/go/compile.rs"
GOPP = "crates/compiler/src/pprint/go_pprint.rs"


def _unquote(a):
    """attribute args like `"&&"` or `r"[0-9]+i8",priority=3` -> (literal text, rest)"""
    a = a.strip()
    m = re.match(r'^r#"(.*?)"#(.*)$', a, re.S) or re.match(r'^r"(.*?)"(.*)$', a, re.S)
    if m:
        return m.group(1), m.group(2)
    m = re.match(r'^"((?:[^"\\]|\\.)*)"(.*)$', a, re.S)
    if m:
        return bytes(m.group(1), "utf-8").decode("unicode_escape"), m.group(2)
    return None, a


def token_kinds(model):
    """[(variant, kind 'token'|'regex'|None, text)] in declaration order"""
    e = model.enum("TokenKind", LEXER)
    out = []
    for v in e["variants"]:
        kind, text = None, None
        for a in v["attrs"]:
            if a["name"] in ("token", "regex"):
                kind = a["name"]
                text, _ = _unquote(a["args"])
        out.append((v["name"], kind, text))
    return out


def t_macro(model):
    """{symbol text: TokenKind variant} from macro_rules! T"""
    tree = model.tree(LEXER)
    for it in tree["items"]:
        if it["k"] == "MacroItem" and it.get("name") == "T":
            toks = it["tokens"]
            out = {}
            for m in re.finditer(r"\[('.'|[^\]]+?)\]=>\{\$crate::TokenKind::([A-Za-z0-9_]+)\};?", toks):
                sym = m.group(1)
                if len(sym) == 3 and sym[0] == "'" and sym[2] == "'":
                    sym = sym[1]
                out[sym.replace(" ", "")] = m.group(2)
            if len(out) < 50:
                raise AnalysisIncomplete(f"T! macro: only {len(out)} arms parsed")
            return out
    raise AnalysisIncomplete("macro_rules! T not found in lexer")


def syntax_kinds(model):
    return [v["name"] for v in model.enum("MySyntaxKind", SYNTAX)["variants"]]


def _t_syms(run, rel, pat):
    """symbols of a T![..] (or-)pattern"""
    txt = S.norm_ws(run.facts.text(rel, pat["sp"]))
    syms = []
    for m in re.finditer(r"T!\[('.'|[^\]]+?)\]", txt):
        s = m.group(1)
        if len(s) == 3 and s[0] == "'":
            s = s[1]
        syms.append(s)
    return syms


def binding_powers(run, model):
    """{'infix': {sym: (l, r)}, 'prefix': {sym: r}, 'postfix': {sym: l}}"""
    out = {"infix": {}, "prefix": {}, "postfix": {}}
    for name, key in (("infix_binding_power", "infix"), ("prefix_binding_power", "prefix"), ("postfix_binding_power", "postfix")):
        f = model.fn(name, EXPR)
        ms = list(S.find(f.body, "Match"))
        if not ms:
            raise AnalysisIncomplete(f"{name}: no match")
        for arm in ms[0]["arms"]:
            syms = _t_syms(run, EXPR, arm["pat"])
            body = S.norm_ws(run.facts.text(EXPR, arm["body"]["sp"]))
            nums = [int(x) for x in re.findall(r"\d+", body)]
            if not syms or not nums:
                continue
            for s in syms:
                if key == "infix":
                    if len(nums) < 2:
                        raise AnalysisIncomplete(f"{name}: arm {syms} has no (l, r) pair")
                    out[key][s] = (nums[0], nums[1])
                else:
                    out[key][s] = nums[0]
    return out


def arms_mapping(run, model, fn, lhs_re, rhs_re, rel=None):
    """generic: for every match arm in fn, pairs (lhs name from pattern, rhs name from body)"""
    out = []
    rel = rel or fn.file

    def loose(rx):
        # `common_defs::BinaryOp::X` may be written `BinaryOp::X` under a `use`: the crate / module qualifier is optional, the type name is not
        m_ = re.match(r"^([a-z_][a-z0-9_]*)::(?=[A-Z])", rx)
        return (r"(?<![A-Za-z0-9_])(?:" + m_.group(1) + "::)?" + rx[m_.end():]) if m_ else rx
    lhs_re, rhs_re = loose(lhs_re), loose(rhs_re)
    # the table may live in a helper of the same file that the function calls (kind -> operator extracted into its own function)
    for g in model.scope_fns(fn):
        if g.body is None:
            continue
        for m in S.find(g.body, "Match"):
            for arm in m["arms"]:
                pt = S.norm_ws(run.facts.text(g.file, arm["pat"]["sp"]))
                bt = S.norm_ws(run.facts.text(g.file, arm["body"]["sp"]))
                ls = re.findall(lhs_re, pt)
                rs = re.findall(rhs_re, bt)
                if ls and rs:
                    for l in ls:
                        out.append((l, rs[0], arm))
    return out


def binop_symbols(run, model):
    """{BinaryOp variant: symbol} and {UnaryOp variant: symbol}"""
    res = {}
    for impl in ("BinaryOp", "UnaryOp"):
        f = model.fn("symbol", DEFS, impl=impl)
        d = {}
        for m in S.find(f.body, "Match"):
            for arm in m["arms"]:
                h = S.pat_head(S.pat_alts(arm["pat"])[0])
                if h[0] == "variant" and arm["body"]["k"] == "Lit":
                    d[h[1][-1]] = arm["body"]["value"]
        res[impl] = d
    return res
