"""Thorough tier: self-validation of a property's checker, both ways, on a scratch copy of /repo (outside /repo and /verif):
   * every seeded mutation of the property (seeded/<id>/patch.diff) must be reported (VIOLATION, exit 1);
   * behaviour-preserving variants (line shift, reordering of top-level functions) must leave the verdict and the
     set of violation keys unchanged.
The scratch copy and its build output are removed before returning."""
import glob
import json
import os
import re
import shutil
import subprocess
import tempfile

from . import core


def _run_check(prop, scratch, extra_env=None):
    env = dict(os.environ)
    env.update({"VERIF_REPO": scratch, "VERIF_CACHE": os.path.join(scratch, ".vcache"), "VERIF_EVIDENCE_DIR": os.path.join(scratch, ".vev"),
                "VERIF_TIER": "quick", "CARGO_NET_OFFLINE": "true"})
    if extra_env:
        env.update(extra_env)
    r = subprocess.run([os.path.join(core.VERIF, "check"), prop, "--tier", "quick"], cwd=core.VERIF, env=env, capture_output=True, text=True)
    keys = sorted(l.split(": ", 1)[1].strip() for l in r.stdout.split("\n") if l.startswith("  at ") and ": " in l)
    known = sorted(l for l in r.stdout.split("\n") if l.startswith("KNOWN-FINDING"))
    return r.returncode, keys, len(known), r.stdout[-1500:]


def _copy_repo(dst):
    def ign(d, names):
        out = []
        for n in names:
            if n in ("target", ".git", "node_modules", "webapp"):
                out.append(n)
        return out
    shutil.copytree(core.REPO, dst, ignore=ign, symlinks=True)


def _line_shift(scratch):
    changed = []
    for root, dirs, files in os.walk(os.path.join(scratch, "crates")):
        dirs[:] = [d for d in dirs if d != "target"]
        for f in files:
            if f.endswith(".rs"):
                p = os.path.join(root, f)
                s = open(p, encoding="utf-8").read()
                # keep inner attributes / shebang-free files valid: a leading block of line comments is always fine
                open(p, "w", encoding="utf-8").write("// selftest: line shift\n// (behaviour-preserving)\n//\n" + s)
                changed.append((p, s))
    return changed


def _reorder_fns(scratch, facts):
    """move the last top-level free function of each compiler source file in front of the first one"""
    changed = []
    for rel in facts.syn_files():
        if not rel.startswith("crates/compiler/src/") or "/tests/" in rel or rel.endswith("main.rs"):
            continue
        tree = facts.syn(rel)
        fns = [it for it in tree["items"] if it["k"] == "Fn" and not any(a["name"] in ("cfg", "test") for a in it.get("attrs", []))]
        if len(fns) < 3:
            continue
        p = os.path.join(scratch, rel)
        s = open(p, encoding="utf-8").read()
        lines = s.split("\n")
        first, last = fns[0], fns[-1]
        # spans are 1-based lines; attributes/doc comments directly above the fn are part of the item span in syn
        a0 = first["sp"][0] - 1
        b0, b1 = last["sp"][0] - 1, last["sp"][2]
        if b0 <= a0:
            continue
        # include a contiguous comment block above the moved function
        while b0 > 0 and lines[b0 - 1].lstrip().startswith("//"):
            b0 -= 1
        block = lines[b0:b1]
        rest = lines[:b0] + lines[b1:]
        new = rest[:a0] + block + [""] + rest[a0:]
        open(p, "w", encoding="utf-8").write("\n".join(new))
        changed.append((p, s))
    return changed


def _neutral_stmt(scratch, facts):
    """insert `let _selftest_neutral = ();` as the first statement of every function body in the non-test sources"""
    from . import syn as S
    changed = []
    for rel in facts.syn_files():
        if not rel.startswith("crates/") or "/tests/" in rel or "/target/" in rel or "/benches/" in rel:
            continue
        if not any(rel.startswith(f"crates/{c}/src/") for c in ("compiler", "parser", "ast", "lexer", "cst", "diagnostics", "text_size", "wasm-app")):
            continue
        tree = facts.syn(rel)
        spots = []
        for n in S.walk(tree):
            if n.get("k") in ("Fn", "ImplFn", "Method") or (n.get("k") == "Fn"):
                b = n.get("body")
                if isinstance(b, dict) and b.get("k") == "Block" and b.get("sp"):
                    if any(a["name"] in ("test",) for a in n.get("attrs", [])) or n.get("const"):
                        continue
                    spots.append((b["sp"][0], b["sp"][1]))
        if not spots:
            continue
        pth = os.path.join(scratch, rel)
        s0 = open(pth, encoding="utf-8").read()
        lines = s0.split("\n")
        for (ln, col) in sorted(set(spots), reverse=True):
            line = lines[ln - 1]
            # syn columns are 0-based character offsets; the block starts at `{`
            idx = col
            if idx >= len(line) or line[idx] != "{":
                j = line.find("{", max(0, idx - 1))
                if j < 0:
                    continue
                idx = j
            lines[ln - 1] = line[:idx + 1] + " let _selftest_neutral = (); " + line[idx + 1:]
        open(pth, "w", encoding="utf-8").write("\n".join(lines))
        changed.append((pth, s0))
    return changed


def _restore(changed):
    for p, s in changed:
        open(p, "w", encoding="utf-8").write(s)


def selftest(prop, facts):
    res = {"seeds": [], "neutral": [], "ok": True}
    tmp = tempfile.mkdtemp(prefix="goml-verif-scratch-")
    scratch = os.path.join(tmp, "repo")
    try:
        _copy_repo(scratch)
        rc0, keys0, known0, out0 = _run_check(prop, scratch)
        res["baseline"] = {"rc": rc0, "violations": keys0, "known_findings": known0}
        if rc0 not in (0,):
            res["ok"] = False
            res["baseline"]["tail"] = out0
            return res
        seeds = []
        for d in sorted(glob.glob(os.path.join(core.VERIF, "seeded", "*", "meta.json"))):
            meta = json.load(open(d))
            own = meta.get("property") == prop
            also = prop in meta.get("also_detected_by", [])
            if own or also:
                seeds.append((meta["id"], os.path.join(os.path.dirname(d), "patch.diff")))
        for sid, patch in seeds:
            dry = subprocess.run(["patch", "-p1", "--dry-run", "-s", "-i", patch], cwd=scratch, capture_output=True, text=True)
            if dry.returncode != 0:
                res["seeds"].append({"seed": sid, "status": "skipped: patch no longer applies to the current tree"})
                continue
            subprocess.run(["patch", "-p1", "-s", "-i", patch], cwd=scratch, capture_output=True, text=True)
            try:
                rc, keys, _, out = _run_check(prop, scratch)
            finally:
                subprocess.run(["patch", "-p1", "-R", "-s", "-i", patch], cwd=scratch, capture_output=True, text=True)
            ok = rc == 1 and bool(keys)
            res["seeds"].append({"seed": sid, "status": "reported" if ok else f"NOT reported (rc={rc})", "violations": keys[:4]})
            if not ok:
                res["ok"] = False
        for name, fn in (("line shift (3 comment lines on top of every .rs file)", lambda: _line_shift(scratch)),
                         ("top-level functions reordered in every compiler source file", lambda: _reorder_fns(scratch, facts)),
                         ("a no-op statement inserted at the top of every function body", lambda: _neutral_stmt(scratch, facts))):
            changed = fn()
            try:
                rc, keys, known, out = _run_check(prop, scratch)
            finally:
                _restore(changed)
            ok = rc == rc0 and keys == keys0 and known == known0
            res["neutral"].append({"variant": name, "files_changed": len(changed), "status": "silent (same verdict, same keys)" if ok else f"CHANGED verdict: rc={rc} keys={keys[:4]}", "tail": "" if ok else out[-600:]})
            if not ok:
                res["ok"] = False
        return res
    finally:
        shutil.rmtree(tmp, ignore_errors=True)
