"""Parser progress analysis (R04.1/R04.2): an abstract interpreter over the grammar functions of crates/parser.

Abstract state of the parser: `at` = set of token symbols the parser is known to be at (None = unknown), `eof` in
{'no','maybe','yes'}, `adv` = a token was consumed since the start of the analysed region.
A loop is safe when every path through its body that falls through (or `continue`s) has consumed a token, unless
that path is feasible only at end of input."""
import re
from . import syn as S

ADVANCE = {"advance", "advance_with_error"}
PURE = {"peek", "nth", "at", "at_any", "eof", "open", "close", "error", "peek_text", "precede", "completed"}


class St:
    __slots__ = ("at", "eof", "adv")

    def __init__(self, at=None, eof="maybe", adv=False):
        self.at, self.eof, self.adv = at, eof, adv

    def key(self):
        return (self.at, self.eof, self.adv)

    def advd(self):
        return St(None, "maybe", True)

    def with_at(self, at):
        return St(frozenset(at), "no", self.adv)

    def without(self, toks):
        if self.at is None:
            return St(None, self.eof, self.adv)
        rest = frozenset(self.at - set(toks))
        return St(rest, self.eof, self.adv)

    def infeasible(self):
        return self.at is not None and len(self.at) == 0 and self.eof == "no"


def dedup(states):
    seen, out = set(), []
    for s in states:
        if s.infeasible():
            continue
        k = s.key()
        if k not in seen:
            seen.add(k)
            out.append(s)
    if len(out) > 12:
        # merge: keep adv/eof distinctions, forget token sets
        seen, m = set(), []
        for s in out:
            k = (s.eof, s.adv)
            if k not in seen:
                seen.add(k)
                m.append(St(None, s.eof, s.adv))
        out = m
    return out


class Analyzer:
    def __init__(self, run, model, files, const_sets, power_tables):
        self.run, self.model, self.files = run, model, files
        self.consts = const_sets          # name -> set of symbols
        self.powers = power_tables        # fn name -> set of symbols mapped to Some
        self.fns = {}
        for rel in files:
            for f in model.fns(rel):
                if f.body is not None and any("Parser" in (p["ty"] or "") for p in f.params()):
                    self.fns.setdefault(f.name, f)
        self.memo = {}
        self.inprog = set()
        self.deps = set()
        self.budget = 20000   # summaries recomputed because they rested on an unfinished outer one; beyond it they are memoised as before
        self.bools = {}   # (fn name, local) -> condition AST
        self.peeks = set()  # (fn name, local) bound to p.peek()

    # ---------- helpers
    def text(self, f, n):
        return S.norm_ws(self.run.facts.text(f.file, n["sp"]))

    def tsyms(self, txt):
        out = []
        for m in re.finditer(r"T!\[('.'|[^\]]+?)\]", txt):
            s = m.group(1)
            out.append(s[1] if len(s) == 3 and s[0] == "'" else s)
        return out

    def entry_state(self, f):
        for st in f.body["stmts"][:2]:
            e = st.get("expr") if st["k"] == "ExprStmt" else None
            if e and e["k"] == "Macro" and e["name"] in ("assert", "debug_assert"):
                t = S.norm_ws(e.get("tokens", ""))
                m = re.fullmatch(r"p\.at\(T!\[('.'|[^\]]+)\]\)", t)
                if m:
                    return frozenset(self.tsyms("T![" + m.group(1) + "]"))
                m = re.fullmatch(r"p\.at_any\(([A-Z_]+)\)", t)
                if m and m.group(1) in self.consts:
                    return frozenset(self.consts[m.group(1)])
        return None

    # ---------- function summaries: set of (retclass, adv, eof)
    def summary(self, name, at):
        f = self.fns.get(name)
        if f is None:
            return None
        own = self.entry_state(f)
        if own is not None:
            at = own
        key = (name, at)
        if key in self.memo:
            return self.memo[key]
        if key in self.inprog:
            # pessimistic answer for a call that is being summarised further up the stack; whatever is computed from it depends on the
            # order in which the functions were entered and is only kept once that outer summary is finished
            self.deps.add(key)
            return {("some", False, "maybe"), ("none", False, "maybe"), ("other", False, "maybe"), ("true", False, "maybe"), ("false", False, "maybe")}
        self.inprog.add(key)
        outer, self.deps = self.deps, set()
        st0 = St(at, "no" if at is not None else "maybe", False)
        falls, exits = self.block(f, f.body, [st0], tail=True)
        outs = set()
        for how, s in exits:
            if how.startswith("ret"):
                outs.add((how[4:] or "other", s.adv, s.eof))
        for s, cls in falls:
            outs.add((cls, s.adv, s.eof))
        self.inprog.discard(key)
        mine = self.deps - {key}
        self.deps = outer | mine
        if not mine or self.budget <= 0:
            self.memo[key] = outs
        else:
            self.budget -= 1
        return outs

    # ---------- expression evaluation: returns list of (state, valueclass)
    def classify_value(self, f, e):
        if e is None:
            return "other"
        k = e["k"]
        if k == "Call" and S.callee_name(e) == "Some":
            return "some"
        if k == "Path" and e["segs"] == ["None"]:
            return "none"
        if k == "Lit" and e.get("lit") == "Bool":
            return e["value"]
        return "other"

    def expr(self, f, e, states):
        """evaluate e for effects; returns list of (state, valueclass), plus exits list"""
        exits = []
        if e is None:
            return [(s, "other") for s in states], exits
        k = e["k"]
        if k in ("Lit", "Path"):
            return [(s, self.classify_value(f, e)) for s in states], exits
        if k == "Block":
            falls, ex = self.block(f, e, states, tail=True)
            return falls, ex
        if k == "If":
            return self.if_(f, e, states)
        if k == "Match":
            return self.match(f, e, states)
        if k in ("While", "Loop", "For"):
            outs = []
            for s in states:
                outs.append((s, "other"))
                if self.may_advance(f, e):
                    outs.append((s.advd(), "other"))
            return outs, exits
        if k == "Return":
            inner, ex = self.expr(f, e.get("expr"), states)
            exits += ex
            cls = self.classify_value(f, e.get("expr"))
            for s, vc in inner:
                exits.append(("ret:" + (vc if cls == "other" else cls), s))
            return [], exits
        if k == "Break":
            return [], [("break", s) for s in states]
        if k == "Continue":
            return [], [("continue", s) for s in states]
        if k == "Try":
            inner, ex = self.expr(f, e["expr"], states)
            exits += ex
            outs = []
            for s, vc in inner:
                if vc in ("none",):
                    exits.append(("ret:none", s))
                elif vc in ("some", "other", "true", "false"):
                    if vc == "other":
                        exits.append(("ret:none", s))
                    outs.append((s, "other"))
            return outs, exits
        if k == "MethodCall":
            return self.method(f, e, states)
        if k == "Call":
            return self.call(f, e, states)
        if k == "Macro":
            if e["name"] in ("assert", "debug_assert", "matches", "format", "vec"):
                return [(s, "other") for s in states], exits
            if e["name"] in ("unreachable", "panic", "todo"):
                return [], exits
        if k == "Unary" and e["op"] == "!":
            inner, ex = self.expr(f, e["expr"], states)
            return [(s, {"true": "false", "false": "true"}.get(vc, vc)) for s, vc in inner], ex
        if k == "Closure":
            return [(s, "other") for s in states], exits
        # generic: evaluate children in order
        cur = [(s, "other") for s in states]
        for key in ("left", "right", "base", "index", "expr", "elems", "args", "fields", "recv", "init"):
            v = e.get(key)
            if v is None:
                continue
            subs = v if isinstance(v, list) else [v]
            for sub in subs:
                if isinstance(sub, dict) and "k" not in sub and "expr" in sub:
                    sub = sub["expr"]
                if isinstance(sub, dict) and "k" in sub:
                    nxt, ex = self.expr(f, sub, [s for s, _ in cur])
                    exits += ex
                    cur = [(s, "other") for s, _ in nxt]
        return cur, exits

    def method(self, f, e, states):
        exits = []
        m = e["method"]
        recv_is_p = S.is_path(e["recv"], "p") or S.is_path(e["recv"], "self")
        if recv_is_p and m in ADVANCE:
            return [(s.advd(), "other") for s in states], exits
        if recv_is_p and m in ("expect", "eat"):
            toks = self.tsyms(self.text(f, e))
            outs = []
            for s in states:
                if s.at is not None and toks and s.at <= set(toks):
                    outs.append((s.advd(), "true"))
                elif s.at is not None and toks and not (s.at & set(toks)):
                    # certainly not at K: expect may still consume the unexpected token (recovery), eat does nothing
                    outs.append((s if m == "eat" else St(None, s.eof, s.adv), "false"))
                    if m == "expect":
                        outs.append((s.advd(), "false"))
                else:
                    outs.append((s.advd(), "true"))
                    outs.append((s.without(toks) if m == "eat" else St(None, s.eof, s.adv), "false"))
                    if m == "expect":
                        outs.append((s.advd(), "false"))
            return outs, exits
        if recv_is_p and m in ("at", "at_any"):
            toks = self.tsyms(self.text(f, e))
            if m == "at_any":
                nm = re.search(r"at_any\(([A-Z_]+)\)", self.text(f, e))
                toks = sorted(self.consts.get(nm.group(1), [])) if nm else []
            outs = []
            for s in states:
                if not toks:
                    outs += [(s, "true"), (s, "false")]
                    continue
                if s.at is not None and s.at <= set(toks):
                    outs.append((s, "true"))
                elif s.at is not None and not (s.at & set(toks)):
                    outs.append((s, "false"))
                else:
                    inter = (s.at & set(toks)) if s.at is not None else set(toks)
                    outs.append((St(frozenset(inter), "no", s.adv), "true"))
                    if s.eof != "no" or s.at is None or (s.at - set(toks)):
                        outs.append((s.without(toks), "false"))
            return outs, exits
        if recv_is_p and m == "eof":
            outs = []
            for s in states:
                if s.eof == "no":
                    outs.append((s, "false"))
                elif s.eof == "yes":
                    outs.append((s, "true"))
                else:
                    outs.append((St(frozenset(), "yes", s.adv), "true"))
                    outs.append((St(s.at, "no", s.adv), "false"))
            return outs, exits
        # receiver expression first (e.g. expr(p).is_none())
        inner, ex = self.expr(f, e["recv"], states)
        exits += ex
        if m in ("is_some", "is_none"):
            outs = []
            for s, vc in inner:
                if vc == "some":
                    outs.append((s, "true" if m == "is_some" else "false"))
                elif vc == "none":
                    outs.append((s, "false" if m == "is_some" else "true"))
                else:
                    outs += [(s, "true"), (s, "false")]
            return outs, exits
        cur = [s for s, _ in inner]
        for a in e["args"]:
            nxt, ex = self.expr(f, a, cur)
            exits += ex
            cur = [s for s, _ in nxt]
        return [(s, "other") for s in cur], exits

    def call(self, f, e, states):
        exits = []
        name = S.callee_name(e)
        cur = states
        passes_p = False
        for a in e["args"]:
            if S.is_path(a, "p"):
                passes_p = True
                continue
            nxt, ex = self.expr(f, a, cur)
            exits += ex
            cur = [s for s, _ in nxt]
        if name in ("Some", "Ok", "Box", "drop"):
            return [(s, "some" if name == "Some" else "other") for s in cur], exits
        if not passes_p or name not in self.fns:
            if name in self.powers:
                # Option-valued table over the current token
                outs = []
                toks = self.powers[name]
                for s in cur:
                    if s.at is not None and s.at <= toks:
                        outs.append((s, "some"))
                    elif s.at is not None and not (s.at & toks):
                        outs.append((s, "none"))
                    else:
                        inter = (s.at & toks) if s.at is not None else toks
                        outs.append((St(frozenset(inter), "no", s.adv), "some"))
                        outs.append((s.without(toks), "none"))
                return outs, exits
            return [(s, "other") for s in cur], exits
        outs = []
        for s in cur:
            summ = self.summary(name, s.at)
            if summ is None:
                outs.append((St(None, s.eof, s.adv), "other"))
                continue
            for cls, adv, eof in summ:
                if adv:
                    outs.append((St(None, "maybe", True), cls))
                else:
                    outs.append((St(s.at, s.eof if eof != "yes" else "yes", s.adv), cls))
        return outs, exits

    def cond(self, f, c, states):
        """evaluate a condition; returns (true_states, false_states, exits)"""
        exits = []
        k = c["k"]
        if k == "Binary" and c["op"] == "&&":
            t1, f1, ex = self.cond(f, c["left"], states)
            exits += ex
            t2, f2, ex = self.cond(f, c["right"], t1)
            exits += ex
            return t2, f1 + f2, exits
        if k == "Binary" and c["op"] == "||":
            t1, f1, ex = self.cond(f, c["left"], states)
            exits += ex
            t2, f2, ex = self.cond(f, c["right"], f1)
            exits += ex
            return t1 + t2, f2, exits
        if k == "Unary" and c["op"] == "!":
            t, fl, ex = self.cond(f, c["expr"], states)
            return fl, t, ex
        if k == "Let":
            inner, ex = self.expr(f, c["expr"], states)
            exits += ex
            pt = self.text(f, c["pat"])
            ts, fs = [], []
            for s, vc in inner:
                wants_some = pt.startswith("Some(")
                if vc == "some":
                    (ts if wants_some else fs).append(s)
                elif vc == "none":
                    (fs if wants_some else ts).append(s)
                else:
                    ts.append(s)
                    fs.append(s)
            return ts, fs, exits
        if k == "Path" and len(c["segs"]) == 1 and (f.name, c["segs"][0]) in self.bools:
            return self.cond(f, self.bools[(f.name, c["segs"][0])], states)
        if k == "Macro" and c["name"] == "matches" and c.get("args"):
            subj = c["args"][0]
            st_ = self.text(f, subj)
            is_cur = st_ in ("p.peek()", "p.nth(0)") or (subj["k"] == "Path" and len(subj["segs"]) == 1 and (f.name, subj["segs"][0]) in self.peeks)
            toks = set(self.tsyms(self.text(f, c["pat"]))) if c.get("pat") else set()
            if is_cur and toks and c.get("guard") is None:
                ts, fs = [], []
                for s in states:
                    if s.at is not None and s.at <= toks:
                        ts.append(s)
                    elif s.at is not None and not (s.at & toks):
                        fs.append(s)
                    else:
                        inter = (s.at & toks) if s.at is not None else toks
                        ts.append(St(frozenset(inter), "no", s.adv))
                        fs.append(s.without(toks))
                return ts, fs, exits
        inner, ex = self.expr(f, c, states)
        exits += ex
        ts, fs = [], []
        for s, vc in inner:
            if vc == "true":
                ts.append(s)
            elif vc == "false":
                fs.append(s)
            else:
                ts.append(s)
                fs.append(s)
        return ts, fs, exits

    def if_(self, f, e, states):
        ts, fs, exits = self.cond(f, e["cond"], states)
        outs = []
        a, ex = self.expr(f, e["then"], dedup(ts))
        exits += ex
        outs += a
        if e.get("else") is not None:
            b, ex = self.expr(f, e["else"], dedup(fs))
            exits += ex
            outs += b
        else:
            outs += [(s, "other") for s in dedup(fs)]
        return outs, exits

    def match(self, f, e, states):
        exits = []
        scr = self.text(f, e["scrut"])
        outs = []
        if scr in ("p.peek()", "p.nth(0)"):
            covered = set()
            for arm in e["arms"]:
                toks = set(self.tsyms(self.text(f, arm["pat"])))
                h = S.pat_head(S.pat_alts(arm["pat"])[0])
                arm_states = []
                for s in states:
                    if toks:
                        if s.at is None:
                            arm_states.append(St(frozenset(toks), "no", s.adv))
                        elif s.at & toks:
                            arm_states.append(St(frozenset(s.at & toks), "no", s.adv))
                    elif h[0] == "any":
                        rest = s.without(covered)
                        if not rest.infeasible() and not (rest.at is not None and len(rest.at) == 0 and rest.eof == "no"):
                            arm_states.append(rest)
                covered |= toks
                if not arm_states:
                    continue
                a, ex = self.expr(f, arm["body"], dedup(arm_states))
                exits += ex
                outs += a
            return outs, exits
        inner, ex = self.expr(f, e["scrut"], states)
        exits += ex
        base = dedup([s for s, _ in inner])
        for arm in e["arms"]:
            a, ex = self.expr(f, arm["body"], base)
            exits += ex
            outs += a
        return outs, exits

    def may_advance(self, f, node):
        for c in S.walk(node):
            if c["k"] == "MethodCall" and c["method"] in ADVANCE | {"expect", "eat"}:
                return True
            if c["k"] == "Call" and S.callee_name(c) in self.fns:
                return True
        return False

    def block(self, f, blk, states, tail=False):
        """returns (fall: list of (state, valueclass)), exits: list of (how, state)"""
        exits = []
        cur = dedup(states)
        stmts = blk["stmts"]
        last_val = None
        for i, st in enumerate(stmts):
            is_last = i == len(stmts) - 1
            if st["k"] == "Local":
                init = st.get("init")
                if init is not None and st["pat"]["k"] == "PIdent":
                    nm = st["pat"]["name"]
                    it = self.text(f, init)
                    if it in ("p.peek()", "p.nth(0)"):
                        self.peeks.add((f.name, nm))
                    elif init["k"] in ("Binary", "Unary", "MethodCall", "Macro") and ("p.at(" in it or "p.at_any(" in it or "matches!(" in it):
                        self.bools[(f.name, nm)] = init
                if init is not None:
                    nxt, ex = self.expr(f, init, cur)
                    exits += ex
                    if st.get("else") is not None:
                        # let-else: the else block diverges on the none/false class
                        keep, div = [], []
                        for s, vc in nxt:
                            if vc == "none":
                                div.append(s)
                            elif vc == "some":
                                keep.append(s)
                            else:
                                keep.append(s)
                                div.append(s)
                        _, ex = self.expr(f, st["else"], dedup(div))
                        exits += ex
                        cur = dedup(keep)
                    else:
                        cur = dedup([s for s, _ in nxt])
                continue
            if st["k"] == "ExprStmt":
                nxt, ex = self.expr(f, st["expr"], cur)
                exits += ex
                if is_last and not st["semi"]:
                    cls = self.classify_value(f, st["expr"])
                    return [(s, (vc if cls == "other" else cls)) for s, vc in nxt], exits
                cur = dedup([s for s, _ in nxt])
                continue
        return [(s, "other") for s in cur], exits

    # ---------- loop obligations
    def check_loop(self, f, loop):
        """returns (ok, detail). A path through the body that falls through or continues without consuming a token while
        not at end of input can repeat forever."""
        if loop["k"] == "While":
            ts, fs, ex = self.cond(f, loop["cond"], [St(None, "maybe", False)])
            start = dedup(ts)
        else:
            start = [St(None, "maybe", False)]
        if not self.may_advance(f, loop["body"]):
            # pure look-ahead loop: it never consumes; it must advance its own cursor before every continue / fall-through
            par = S.Parents(loop["body"])
            conts = [n for n in S.walk(loop["body"]) if n["k"] == "Continue"]
            okc = True
            for cn in conts:
                blk = par.parent(par.parent(cn)) if par.parent(cn) is not None and par.parent(cn)["k"] == "ExprStmt" else par.parent(cn)
                incs = [x for x in S.walk(blk) if x["k"] == "Binary" and x["op"] == "+=" and (x["sp"][0], x["sp"][1]) < (cn["sp"][0], cn["sp"][1])] if blk else []
                okc = okc and bool(incs)
            body_inc = any(x["k"] == "Binary" and x["op"] == "+=" for x in S.walk(loop["body"]))
            ends_break = loop["body"]["stmts"] and S.norm_ws(self.run.facts.text(f.file, loop["body"]["stmts"][-1]["sp"])).startswith("break")
            ok = okc and (bool(conts) or body_inc) and (ends_break or body_inc)
            return ok, "look-ahead loop (consumes nothing): a local cursor is incremented before every continue" if ok else "look-ahead loop without a cursor increment on some path"
        falls, exits = self.block(f, loop["body"], start)
        bad = []
        for s, _ in falls:
            if not s.adv and s.eof != "yes":
                bad.append(("falls through", s))
        for how, s in exits:
            if how == "continue" and not s.adv and s.eof != "yes":
                bad.append(("continues", s))
        if not bad:
            return True, f"{len(falls)} fall-through paths, all advance (or are at end of input); exits: {sorted({h for h, _ in exits})}"
        b = bad[0]
        at = "any token" if b[1].at is None else ("{" + ", ".join(sorted(b[1].at)) + "}")
        return False, f"a path {b[0]} without consuming a token while the parser is at {at} (not end of input)"
