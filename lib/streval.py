"""Concrete evaluation of a Rust expression over known string / integer values - enough for the guards that sit in front of a table
lookup (`if !(2..=9).contains(&s.len()) || !s.bytes().all(|b| b.is_ascii_lowercase()) { return false }`).  Anything outside the
supported fragment raises Unknown: the caller then reports the clause as undecided, never as held."""


class Unknown(Exception):
    pass


class _Seq(list):
    """an iterator / slice of characters or bytes"""


_CHAR_PRED = {
    "is_ascii_lowercase": lambda c: "a" <= c <= "z",
    "is_ascii_uppercase": lambda c: "A" <= c <= "Z",
    "is_ascii_alphabetic": lambda c: c.isascii() and c.isalpha(),
    "is_ascii_digit": lambda c: "0" <= c <= "9",
    "is_ascii_alphanumeric": lambda c: c.isascii() and c.isalnum(),
    "is_ascii": lambda c: c.isascii(),
    "is_alphabetic": lambda c: c.isalpha(),
    "is_lowercase": lambda c: c.islower(),
    "is_uppercase": lambda c: c.isupper(),
    "is_alphanumeric": lambda c: c.isalnum(),
    "is_numeric": lambda c: c.isnumeric(),
    "is_whitespace": lambda c: c.isspace(),
}


def ev(e, env):
    k = e.get("k")
    if k in ("Paren", "Ref", "Group"):
        return ev(e["expr"], env)
    if k == "Unary":
        v = ev(e["expr"], env)
        if e["op"] == "!":
            if isinstance(v, bool):
                return not v
            raise Unknown("! on a non-boolean")
        if e["op"] == "*":
            return v
        if e["op"] == "-" and isinstance(v, int):
            return -v
        raise Unknown(e["op"])
    if k == "Lit":
        t, v = e.get("lit"), e.get("value")
        if t == "Str":
            return v
        if t == "Char":
            return v
        if t == "Byte":
            return chr(int(v))
        if t == "Int":
            import re
            m = re.match(r"^(0x[0-9a-fA-F_]+|0b[01_]+|0o[0-7_]+|[0-9_]+)", str(v))
            return int(m.group(1).replace("_", ""), 0)
        if t == "Bool":
            return str(v) == "true"
        raise Unknown(f"literal {t}")
    if k == "Path":
        if len(e["segs"]) == 1:
            if e["segs"][0] in env:
                return env[e["segs"][0]]
            if e["segs"][0] in ("true", "false"):
                return e["segs"][0] == "true"
        raise Unknown("path " + "::".join(e["segs"]))
    if k == "Range":
        lo = ev(e["start"], env) if e.get("start") else None
        hi = ev(e["end"], env) if e.get("end") else None
        return ("range", lo, hi, "=" in (e.get("limits") or ""))
    if k == "Binary":
        op = e["op"]
        if op == "&&":
            l = ev(e["left"], env)
            return bool(l) and bool(ev(e["right"], env))
        if op == "||":
            l = ev(e["left"], env)
            return bool(l) or bool(ev(e["right"], env))
        l, r = ev(e["left"], env), ev(e["right"], env)
        try:
            if op == "==":
                return l == r
            if op == "!=":
                return l != r
            if op == "<":
                return l < r
            if op == "<=":
                return l <= r
            if op == ">":
                return l > r
            if op == ">=":
                return l >= r
            if op == "+":
                return l + r
            if op == "-":
                return l - r
        except TypeError:
            raise Unknown("comparison of unlike values")
        raise Unknown("operator " + op)
    if k == "MethodCall":
        m = e["method"]
        recv = ev(e["recv"], env)
        args = e.get("args") or []
        if isinstance(recv, tuple) and recv and recv[0] == "range" and m == "contains" and len(args) == 1:
            x = ev(args[0], env)
            _, lo, hi, incl = recv
            return (lo is None or lo <= x) and (hi is None or (x <= hi if incl else x < hi))
        if isinstance(recv, str) and not isinstance(recv, _Seq):
            if m == "len" and not args:
                return len(recv.encode("utf-8"))
            if m == "is_empty" and not args:
                return recv == ""
            if m in ("bytes", "chars", "as_bytes") and not args:
                return _Seq(recv)
            if m in ("starts_with", "ends_with", "contains") and len(args) == 1:
                a = ev(args[0], env)
                if isinstance(a, str):
                    return {"starts_with": recv.startswith, "ends_with": recv.endswith, "contains": recv.__contains__}[m](a)
            if m in ("as_str", "to_string", "to_owned", "clone", "as_ref", "trim") and not args:
                return recv.strip() if m == "trim" else recv
            if m in ("eq",) and len(args) == 1:
                return recv == ev(args[0], env)
            if len(recv) == 1 and m in _CHAR_PRED and not args:
                return _CHAR_PRED[m](recv)
        if isinstance(recv, _Seq):
            if m in ("iter", "into_iter", "copied", "cloned", "by_ref") and not args:
                return recv
            if m in ("len", "count") and not args:
                return len(recv)
            if m == "is_empty" and not args:
                return not recv
            if m in ("all", "any") and len(args) == 1:
                f = _pred(args[0], env)
                return all(f(c) for c in recv) if m == "all" else any(f(c) for c in recv)
            if m in ("first", "next") and not args:
                return recv[0] if recv else None
            if m == "last" and not args:
                return recv[-1] if recv else None
        raise Unknown(f".{m}()")
    if k == "Macro" and e.get("name") == "matches":
        raise Unknown("matches!")
    raise Unknown(str(k))


def _pred(a, env):
    if a.get("k") == "Closure" and len(a.get("inputs") or []) == 1:
        from . import syn as S
        names = S.pat_bindings(a["inputs"][0]) or []
        if len(names) != 1:
            raise Unknown("closure pattern")

        def f(c):
            return ev(a["body"], dict(env, **{names[0]: c}))
        return f
    if a.get("k") == "Path" and a["segs"][-1] in _CHAR_PRED:
        return _CHAR_PRED[a["segs"][-1]]
    raise Unknown("predicate argument")
