"""Panic-capable sites and call-graph reachability over E1 facts."""
import re
from .mir import strip_generics, callee_tail

WS = ("ast", "common_defs", "compiler", "cst", "diagnostics", "lexer", "parser", "wasm_app")

EXPLICIT = re.compile(r"^(std::rt::panic_fmt|std::rt::begin_panic|core::panicking::(panic|panic_fmt|panic_display|panic_str|unreachable_display|assert_failed|panic_explicit|panic_nounwind)\b)")
UNWRAP = re.compile(r"^(std|core)::(option::Option|result::Result)::(unwrap|expect|unwrap_err|expect_err)$")
SLICE = re.compile(r"^core::(slice::index::|str::slice_error_fail|str::traits::)")


def base_fn(path):
    return re.sub(r"(::\{closure#\d+\})+$", "", path)


def norm_callee(callee):
    return strip_generics(callee).replace("::::", "::")


def site_kind(c):
    """classify a call fact: 'panic' | 'unwrap' | 'index' | None"""
    cal = norm_callee(c["callee"])
    if EXPLICIT.match(cal):
        return "panic"
    if UNWRAP.match(cal):
        return "unwrap"
    if callee_tail(c["callee"]) in ("index", "index_mut") and "ops::Index" in c["callee"]:
        return "index"
    if SLICE.match(cal):
        return "index"
    return None


class Graph:
    def __init__(self, mir):
        self.mir = mir
        self.fns = {}
        for f in mir.raw["fn"]:
            self.fns[(f["crate"], f["path"])] = f
        self.by_crate = {}
        for (k, p) in self.fns:
            self.by_crate.setdefault(k, set()).add(p)
        self._impl = {}
        for (k, p) in self.fns:
            if p.startswith("<"):
                self._impl.setdefault(strip_generics(p), (k, p))
        self._rcache = {}
        self.edges = {}
        self.unresolved = {}
        for c in mir.calls:
            src = (c["crate"], base_fn(c["caller"]))
            tgt = self.resolve(c["crate"], c["callee"])
            if tgt is not None:
                self.edges.setdefault(src, set()).add(tgt)
            elif not c["resolved"] and c["callee"].startswith("<indirect"):
                self.unresolved.setdefault(src, 0)
                self.unresolved[src] += 1

    def resolve(self, crate, callee):
        key = (crate, callee)
        if key not in self._rcache:
            self._rcache[key] = self._resolve(crate, callee)
        return self._rcache[key]

    def _resolve(self, crate, callee):
        callee = base_fn(callee)
        if callee in self.by_crate.get(crate, ()):
            return (crate, callee)
        head = callee.split("::", 1)[0]
        if head in WS and "::" in callee:
            rest = callee.split("::", 1)[1]
            if rest in self.by_crate.get(head, ()):
                return (head, rest)
        # trait impl paths `<X as T>::f` printed from another crate carry crate prefixes inside; try a generics-free match
        if callee.startswith("<"):
            return self._impl.get(strip_generics(callee))
        return None

    def reachable(self, roots):
        seen = set()
        work = [r for r in roots if r in self.fns]
        while work:
            n = work.pop()
            if n in seen:
                continue
            seen.add(n)
            for t in self.edges.get(n, ()):
                if t not in seen:
                    work.append(t)
        return seen
