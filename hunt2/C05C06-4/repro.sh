#!/bin/bash
# Run from the repository root. Exit 0 = defect present.
HERE="$(cd "$(dirname "$0")" && pwd)"
T=crates/compiler/tests/zz_c05c06_hover_shorthand.rs
cp "$HERE/zz_c05c06_hover_shorthand.rs" "$T" || exit 2
cargo test --offline -q -p compiler --test zz_c05c06_hover_shorthand -- --nocapture 2>&1 | grep -v "^warning" | tail -15
rc=${PIPESTATUS[0]}
rm -f "$T"
[ "$rc" -eq 0 ] && echo "DEFECT PRESENT: hover on a shorthand struct-pattern binder shows the struct type"
exit "$rc"
