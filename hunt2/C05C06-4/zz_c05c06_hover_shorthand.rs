// Throw-away integration test: copied to crates/compiler/tests/ by repro.sh.
// It PASSES when the defect is present.
use compiler::query::hover_type;
use std::path::Path;

const SRC: &str = r#"struct P { x: int32, y: string }
enum E { A(P), B }

fn f(p: P, e: E) -> int32 {
    let P { x, y } = p;
    let P { x: x2, y: y2 } = P { x: x, y: y };
    match e {
        A(P { x, y }) => x,
        B => x2,
    }
}

fn main() { () }
"#;

fn hover(line: u32, col: u32) -> String {
    hover_type(Path::new("dummy"), SRC, line, col).unwrap_or_else(|e| format!("<err {e}>"))
}

#[test]
fn hover_on_shorthand_field_binder_reports_the_struct_type() {
    // explicit form `x: x2`: the binder x2 is an int32, y2 a string (correct)
    assert_eq!(hover(5, 15), "int32");
    assert_eq!(hover(5, 22), "string");
    // uses of the shorthand binders are correct, so the binders themselves are int32 / string
    assert_eq!(hover(7, 25), "int32");
    // shorthand form `P { x, y }`: hovering the binders answers with the type of the whole pattern
    println!("let P {{ x, y }}: x -> {}, y -> {}", hover(4, 12), hover(4, 15));
    println!("A(P {{ x, y }}):  x -> {}, y -> {}", hover(7, 14), hover(7, 17));
    assert_eq!(hover(4, 12), "P"); // expected int32
    assert_eq!(hover(4, 15), "P"); // expected string
    assert_eq!(hover(7, 14), "P"); // expected int32
    assert_eq!(hover(7, 17), "P"); // expected string
}
