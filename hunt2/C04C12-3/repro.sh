#!/bin/bash
# Run from the repository root. Exits 0 when the defect is present.
set -u
ROOT=$(pwd)
HERE=$(cd "$(dirname "$0")" && pwd)
BIN="$ROOT/target/debug/compiler"
[ -x "$BIN" ] || cargo build --offline -p compiler >/dev/null 2>&1
WORK=$(mktemp -d); trap 'rm -rf "$WORK"' EXIT
cp -r "$HERE/ref_get" "$HERE/vec_get" "$HERE/shadow_user_fn" "$WORK/"

present=0
for t in ref_get vec_get; do
  out=$(cd "$WORK/$t" && "$BIN" run main.gom 2>&1); rc=$?
  echo "$t: exit=$rc :: $(echo "$out" | grep -m1 -A1 'panicked at' | tr '\n' ' ')"
  if echo "$out" | grep -q "panicked at crates/compiler/src/go/compile.rs"; then present=1; fi
done
# For comparison: the sibling declaration form is rejected since commit 9cb937a
mkdir -p "$WORK/cmp" && printf 'extern "go" "strings" ref_get(a: string) -> string\nfn main() -> unit { () }\n' > "$WORK/cmp/main.gom"
echo "extern \"go\" form: $(cd "$WORK/cmp" && "$BIN" run main.gom 2>&1 | head -1)"
# Silent variant: the builtin declaration replaces the type of a user function
out=$(cd "$WORK/shadow_user_fn" && "$BIN" run --dump-go main.gom 2>&1)
echo "shadow_user_fn: $(echo "$out" | grep -c 'already defined') 'already defined' diagnostics; emitted call: $(echo "$out" | grep -m1 'foo(\"a\")')"

if [ $present -eq 1 ]; then echo "DEFECT PRESENT"; exit 0; fi
echo "defect absent"; exit 1
