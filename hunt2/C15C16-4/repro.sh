#!/bin/bash
# Run from the repository root. Exit 0 = defect present.
HERE="$(cd "$(dirname "$0")" && pwd)"
BIN="${GOML_BIN:-./target/debug/compiler}"
[ -x "$BIN" ] || cargo build --offline -q -p compiler || exit 2
W="$(mktemp -d)"; trap 'rm -rf "$W"' EXIT
cp -r "$HERE/project" "$W/project"; mkdir -p "$W/out"
echo "== whole program: Lib::Codec mentions Bytes, Chunk and dyn Reader, none of which exists"
e="$("$BIN" run --dump-go "$W/project/main.gom" 2>&1 | grep '^error')"; echo "${e:-(accepted, no diagnostic)}"
echo "== check --package Lib"
"$BIN" check --package Lib --input "$W/project/Lib/lib.gom" --output "$W/out/Lib"; rc=$?
echo "check rc=$rc"; grep -o '"name": "Lib::Bytes"' "$W/out/Lib.interface" | head -1
echo "== control: the same unknown type in a function signature is rejected"
cp "$W/project/control.gom.txt" "$W/project/Lib/lib.gom"
c="$("$BIN" run --dump-go "$W/project/main.gom" 2>&1 | grep '^error')"; echo "$c"
if [ -z "$e" ] && [ "$rc" = 0 ] && echo "$c" | grep -q 'Unknown type constructor'; then echo "DEFECT PRESENT"; exit 0; fi
exit 1
