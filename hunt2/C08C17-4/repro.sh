#!/bin/sh
# Run from the repository root. Exits 0 when the defect is PRESENT.
HERE="$(cd "$(dirname "$0")" && pwd)"
BIN=./target/debug/compiler
[ -x "$BIN" ] || cargo build --offline -p compiler >/dev/null 2>&1 || { echo "build failed"; exit 2; }
run() { $BIN run --dump-tast "$HERE/$1/main.gom" 2>&1; }
S="$(run prog_static)"; D="$(run prog_dot)"; TD="$(run prog_trait_dot)"; TP="$(run prog_trait_path)"
echo "R::render(r, p)      : $(echo "$S"  | grep -c 'error (typer)') typer errors"
echo "r.render(p)          : $(echo "$D"  | grep 'error (typer)')"
echo "t.render(p)  [T:Render]: $(echo "$TD" | grep -c 'error (typer)') typer errors"
echo "Render::render(t, p) : $(echo "$TP" | grep 'error (typer)')"
echo "$S"  | grep -q 'error (typer)' && exit 1
echo "$TD" | grep -q 'error (typer)' && exit 1
echo "$S"  | grep -q 'to_dyn\[Show\]{P}' || exit 1
if echo "$D" | grep -q 'Types are not equal: TDyn(Show) and TStruct(P)' && echo "$TP" | grep -q 'Types are not equal: TStruct(P) and TDyn(Show)'; then
  echo "DEFECT PRESENT: the two call forms of one method disagree (one accepted with a dyn coercion, one rejected)"
  exit 0
fi
echo "defect absent"; exit 1
