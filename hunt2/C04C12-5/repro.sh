#!/bin/bash
# Run from the repository root. Exits 0 when the defect is present.
set -u
ROOT=$(pwd)
HERE=$(cd "$(dirname "$0")" && pwd)
BIN="$ROOT/target/debug/compiler"
[ -x "$BIN" ] || cargo build --offline -p compiler >/dev/null 2>&1
WORK=$(mktemp -d); trap 'rm -rf "$WORK"' EXIT
present=0
for f in neg_match_253 neg_match_254 neg_match_255 not_if_254; do
  mkdir -p "$WORK/$f"; cp "$HERE/$f.gom" "$WORK/$f/main.gom"
  out=$(cd "$WORK/$f" && "$BIN" run main.gom 2>&1); rc=$?
  echo "$f: exit=$rc :: $(echo "$out" | grep -m1 -A1 'panicked at\|did not consume' | tr '\n' ' ' | cut -c1-160)"
  if echo "$out" | grep -q "assertion failed: p.at"; then present=1; fi
done
if [ $present -eq 1 ]; then echo "DEFECT PRESENT"; exit 0; fi
echo "defect absent"; exit 1
