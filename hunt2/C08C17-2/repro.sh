#!/bin/sh
# Run from the repository root. Exits 0 when the defect is PRESENT.
HERE="$(cd "$(dirname "$0")" && pwd)"
BIN=./target/debug/compiler
[ -x "$BIN" ] || cargo build --offline -p compiler >/dev/null 2>&1 || { echo "build failed"; exit 2; }
OUT="$($BIN run --dump-lift --dump-go "$HERE/prog/main.gom" 2>&1)"
# Lift IR: the in-place call is left as a call of the struct value
echo "$OUT" | grep -n 'adder(1)(2)'
# Go: a variable of the closure struct type is called like a function
LINE="$(echo "$OUT" | awk '/var t[0-9]+ closure_env_adder_0 = adder\(1\)/ {v=$2} /var r2__[0-9]+ int32 = t[0-9]+\(2\)/ {print v": "$0}')"
echo "$LINE"
[ -n "$LINE" ] || { echo "defect absent"; exit 1; }
echo "DEFECT PRESENT: Go calls a value of struct type closure_env_adder_0 (not a function)"
exit 0
