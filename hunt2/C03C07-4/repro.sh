#!/bin/bash
# Run from the repository root. Exit 0 = defect present.
here="$(cd "$(dirname "$0")" && pwd)"
C="${COMPILER:-./target/debug/compiler}"
[ -x "$C" ] || cargo build --offline -q -p compiler || exit 2
fail=0
out=$("$C" run --dump-go "$here/static/main.gom" 2>&1)
echo "$out" | grep -q '^== Go ==' || { echo "control program does not compile"; fail=1; }
out=$("$C" run --dump-mono --dump-go "$here/prog/main.gom" 2>&1); rc=$?
echo "--- prog: exit code $rc"; echo "$out" | grep -v '^ \|^stack' | head -5
echo "$out" | grep -q 'generic types not supported in Go backend: ty=TEnum(Option), args=\[TInt32\]' || fail=1
echo "$out" | grep -q '^== Go ==' && fail=1
if [ $fail -eq 0 ]; then echo "DEFECT PRESENT"; exit 0; else echo "defect absent"; exit 1; fi
