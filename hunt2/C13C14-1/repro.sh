#!/bin/bash
# Run from the repository root. Exits 0 when the defect is PRESENT.
# Sources of package Lib:  Lib/a.gom (a symlink into another directory) and Lib/b.gom.
# Whole-program compilation orders the files of a package by their NAME in the package
# directory (a.gom, b.gom); check/build order them by their CANONICAL path (symlinks
# resolved), here b.gom first.  Same sources, same file names - different file order,
# different interface hash, and (because the typer wants `extern type` declared before
# its first use) a project that `run` accepts and `build` rejects.
set -u
ROOT=$(pwd)
cargo build --offline -q -p compiler 2>/dev/null || cargo build --offline -p compiler || exit 2
BIN="$ROOT/target/debug/compiler"
W=$(mktemp -d)
trap 'rm -rf "$W"' EXIT

mk_tree() {   # $1 = dir, $2 = "symlink" | "plain"
  mkdir -p "$1/Lib" "$1/zstore"
  cat > "$1/zstore/a_real.gom" <<'G'
package Lib

extern type Stamp
extern "go" "time" "Now" now() -> Stamp

fn first() -> int32 { 1 }
G
  if [ "$2" = symlink ]; then ln -s ../zstore/a_real.gom "$1/Lib/a.gom"; else cp "$1/zstore/a_real.gom" "$1/Lib/a.gom"; fi
  cat > "$1/Lib/b.gom" <<'G'
package Lib

extern "go" "fmt" "Sprint" show(s: Stamp) -> string

fn second() -> int32 { 2 }
G
  cat > "$1/main.gom" <<'G'
package Main
import Lib

fn main() {
    string_println(Lib::show(Lib::now()));
    string_println(int32_to_string(Lib::first() + Lib::second()));
}
G
}

mk_tree "$W/sym" symlink
mk_tree "$W/plain" plain

fail=0
# 1. whole-program compilation accepts the project with the symlink
( cd "$W/sym" && "$BIN" run --dump-go ./main.gom > "$W/whole.txt" 2> "$W/whole.err" )
if grep -q 'time.Now()' "$W/whole.txt" && grep -q 'failed to execute go' "$W/whole.err"; then
  echo "whole-program (symlinked a.gom): ACCEPTED, Go emitted"
else
  echo "whole-program did not compile the project:"; cat "$W/whole.err"; fail=1
fi

# 2. separate compilation of the very same files rejects package Lib
mkdir -p "$W/osym"
( cd "$W/sym" && "$BIN" build --package Lib --input Lib/a.gom Lib/b.gom --interface-path "$W/osym" --output "$W/osym/Lib" ) > "$W/bsym.txt" 2>&1
rc_sym=$?
echo "build Lib (symlinked a.gom): rc=$rc_sym"; cut -c1-260 "$W/bsym.txt"

# 3. the same file contents without the symlink are accepted by build
mkdir -p "$W/oplain"
( cd "$W/plain" && "$BIN" build --package Lib --input Lib/a.gom Lib/b.gom --interface-path "$W/oplain" --output "$W/oplain/Lib" ) > "$W/bplain.txt" 2>&1
rc_plain=$?
echo "build Lib (plain copy of the same files): rc=$rc_plain"

if [ $fail -eq 0 ] && [ $rc_sym -ne 0 ] && grep -q 'Unknown type constructor Lib::Stamp' "$W/bsym.txt" && [ $rc_plain -eq 0 ]; then
  echo "DEFECT PRESENT: run accepts, build rejects the same sources (file order = canonical path order)"
  exit 0
fi
echo "defect absent"
exit 1
