#!/bin/bash
# Companion to repro.sh (C13 angle). Run from the repository root; exits 0 when the defect is PRESENT.
# The same two source files of package Lib, checked once through a symlink and once as plain
# files, get different interface hashes, and link orders the functions differently from run.
set -u
ROOT=$(pwd)
cargo build --offline -q -p compiler 2>/dev/null || cargo build --offline -p compiler || exit 2
BIN="$ROOT/target/debug/compiler"
W=$(mktemp -d)
trap 'rm -rf "$W"' EXIT
mk_tree() {
  mkdir -p "$1/Lib" "$1/zstore"
  printf 'package Lib\n\nfn first() -> int32 { 1 }\n' > "$1/zstore/a_real.gom"
  if [ "$2" = symlink ]; then ln -s ../zstore/a_real.gom "$1/Lib/a.gom"; else cp "$1/zstore/a_real.gom" "$1/Lib/a.gom"; fi
  printf 'package Lib\n\nfn second() -> int32 { 2 }\n' > "$1/Lib/b.gom"
  printf 'package Main\nimport Lib\n\nfn main() {\n    string_println(int32_to_string(Lib::first() + Lib::second()));\n}\n' > "$1/main.gom"
}
mk_tree "$W/sym" symlink
mk_tree "$W/plain" plain
for t in sym plain; do
  mkdir -p "$W/o$t"
  ( cd "$W/$t" && "$BIN" check --package Lib --input Lib/a.gom Lib/b.gom --interface-path "$W/o$t" --output "$W/o$t/Lib" ) || exit 2
done
h1=$(grep -o '"interface_hash": "[0-9a-f]*"' "$W/osym/Lib.interface" | tail -1)
h2=$(grep -o '"interface_hash": "[0-9a-f]*"' "$W/oplain/Lib.interface" | tail -1)
echo "symlinked: $h1"; echo "plain    : $h2"
# whole-program vs link function order in the symlinked tree
( cd "$W/sym" && "$BIN" run --dump-go ./main.gom 2>/dev/null | grep '^func _goml_Lib' > "$W/whole.order" )
( cd "$W/sym" && "$BIN" build --package Lib --input Lib/a.gom Lib/b.gom --interface-path "$W/osym" --output "$W/osym/Lib" \
  && "$BIN" build --package Main --input main.gom --interface-path "$W/osym" --output "$W/osym/Main" \
  && "$BIN" link --input "$W/osym/Lib.core" "$W/osym/Main.core" --output "$W/osym/a.go" ) || exit 2
grep '^func _goml_Lib' "$W/osym/a.go" > "$W/link.order"
echo "run :"; cat "$W/whole.order"; echo "link:"; cat "$W/link.order"
if [ "$h1" != "$h2" ] && ! cmp -s "$W/whole.order" "$W/link.order"; then echo "DEFECT PRESENT"; exit 0; fi
echo "defect absent"; exit 1
