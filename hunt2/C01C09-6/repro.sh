#!/bin/bash
# Run from the repository root.  Exit 0 = defect present.
set -u
here="$(cd "$(dirname "${BASH_SOURCE[0]}")" && pwd)"
cargo build --offline -q -p compiler 2>/dev/null || cargo build --offline -p compiler || exit 2
a="$(./target/debug/compiler run --dump-go "$here/prog_call/main.gom" 2>&1)"
b="$(./target/debug/compiler run --dump-go "$here/prog_vec/main.gom" 2>&1)"
c="$(./target/debug/compiler run --dump-go "$here/prog_ok/main.gom" 2>&1)"
echo "--- prog_call"; echo "$a" | grep 'error' | head -4
echo "--- prog_vec";  echo "$b" | grep 'error' | head -4
echo "--- prog_ok";   echo "$c" | grep -c 'error'
echo "$c" | grep -q "^func main0" || { echo "control program is rejected as well: different situation"; exit 1; }
if echo "$a" | grep -q 'Cannot convert non-concrete type TVar' && echo "$b" | grep -q 'No instance found for trait Show<TDyn(Show)>'; then
  echo "DEFECT PRESENT: well-typed uses of dyn values are rejected because the dyn decision is taken on an unsolved type variable"
  exit 0
fi
echo "defect absent"; exit 1
