#!/bin/bash
# Run from the repository root.  Exit 0 = defect present.
set -u
here="$(cd "$(dirname "${BASH_SOURCE[0]}")" && pwd)"
cargo build --offline -q -p compiler 2>/dev/null || cargo build --offline -p compiler || exit 2
out="$(./target/debug/compiler run --dump-go "$here/proj/main.gom" 2>&1)"
echo "$out" | grep -n '^func main0\|_goml_Cli_x3a__x3a_main'
n=$(echo "$out" | grep -c '^func main0(')
def=$(echo "$out" | grep -c '^func _goml_Cli_x3a__x3a_main(')
call=$(echo "$out" | grep -c '_goml_Cli_x3a__x3a_main(41)')
if [ "$n" -ge 2 ] && [ "$def" -eq 0 ] && [ "$call" -ge 1 ]; then
  echo "DEFECT PRESENT: Cli::main is emitted as a second func main0, and its call site refers to the undeclared _goml_Cli_x3a__x3a_main"
  exit 0
fi
echo "defect absent"; exit 1
