#!/bin/bash
# Run from the repository root. Exits 0 when the defect is PRESENT.
here="$(cd "$(dirname "$0")" && pwd)"
GOML="${GOML:-./target/debug/compiler}"
if [ ! -x "$GOML" ]; then
    cargo build --offline -p compiler >/dev/null 2>&1 || { echo "cannot build compiler"; exit 2; }
fi

out="$("$GOML" run --dump-go "$here/prog/main.gom" 2>&1)"
go_text="$(printf '%s\n' "$out" | awk '/^package main/{p=1} p')"
if [ -z "$go_text" ]; then
    echo "program was not accepted (no Go emitted):"; printf '%s\n' "$out" | tail -5
    exit 3
fi

printf '%s\n' "$go_text" | sed -n '/^func len(/,/^}/p;/^func append(/,/^}/p'

# The user function is emitted under the bare Go name `len` / `append` ...
printf '%s\n' "$go_text" | grep -q '^func len(v__[0-9]* \[\]int32) int32 {' || { echo "no package-level func len: defect absent"; exit 1; }
printf '%s\n' "$go_text" | grep -q '^func append(v__[0-9]* \[\]int32, x__[0-9]* int32) \[\]int32 {' || { echo "no package-level func append: defect absent"; exit 1; }
# ... and the lowering of vec_len / vec_push inside those very functions relies on the
# predeclared Go builtins of the same name, which now resolve to the user functions.
printf '%s\n' "$go_text" | sed -n '/^func len(/,/^}/p' | grep -q 'int32(len(v__[0-9]*))' || { echo "vec_len no longer lowered to len(): defect absent"; exit 1; }
printf '%s\n' "$go_text" | sed -n '/^func append(/,/^}/p' | grep -q '= append(v__[0-9]*, x__[0-9]*)' || { echo "vec_push no longer lowered to append(): defect absent"; exit 1; }

echo
echo "DEFECT PRESENT: func len calls itself (int32(len(v))), func append calls itself:"
echo "valid Go, but unbounded recursion instead of printing 2."

# secondary facet (informational): a user function called init
out2="$("$GOML" run --dump-go "$here/prog_init/main.gom" 2>&1)"
if printf '%s\n' "$out2" | grep -q '^func init(start__[0-9]* int32) Counter {'; then
    echo "also: 'fn init(start: int32) -> Counter' is emitted as 'func init(start__0 int32) Counter' (Go: func init must have no arguments and no return values; init cannot be referred to)"
fi
exit 0
