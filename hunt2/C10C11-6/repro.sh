#!/bin/sh
# Run from the repository root. Exits 0 when the defect is present.
here=$(cd "$(dirname "$0")" && pwd)
cargo build --offline -q -p compiler 2>/dev/null || cargo build --offline -p compiler || exit 2
tmp=$(mktemp -d)
# the file is accepted without any diagnostic ...
./target/debug/compiler check --package Main --input "$here/prog/main.gom" --output "$tmp/p.interface" >"$tmp/p.log" 2>&1
rc=$?
cat "$tmp/p.log"; rm -rf "$tmp"
[ $rc -eq 0 ] || exit 1
# ... and the three top-level expressions are not part of the program
ast=$(./target/debug/compiler run --dump-ast "$here/prog/main.gom" 2>&1)
echo "$ast"
echo "$ast" | grep -q 'fn main() -> unit' || exit 1
echo "$ast" | grep -q 'after main' && exit 1
echo "$ast" | grep -q 'no_such_function' && exit 1
echo "$ast" | grep -q '^error' && exit 1
echo "DEFECT PRESENT: expressions between items are parsed, then silently discarded"
exit 0
