#!/bin/bash
# Run from the repository root. Exit 0 = defect present.
HERE="$(cd "$(dirname "$0")" && pwd)"
BIN="${GOML_BIN:-target/debug/compiler}"
[ -x "$BIN" ] || cargo build --offline -q -p compiler || exit 2

same=$("$BIN" run --dump-go "$HERE/same_file/main.gom" 2>&1)
split=$("$BIN" run --dump-go "$HERE/split_files/main.gom" 2>&1)

echo "--- same file (struct point and the binders in one file):"
echo "$same" | grep -E "^error" | head
echo "--- split files (struct point in types.gom, same functions in main.gom):"
echo "$split" | grep -E "^error|^== Go ==" | head -3

# defect: the one-file program is rejected for its binders named `point` ...
echo "$same" | grep -q "Struct point patterns must use field syntax" || exit 1
# ... although the very same functions type-check and reach Go emission when the struct
# lives in a sibling file of the package (so the program is well scoped)
echo "$split" | grep -q "^== Go ==" || exit 1
echo "$split" | grep -q "^error" && exit 1
echo "DEFECT PRESENT: binder named like a struct of the same file is rejected"
exit 0
