// Throw-away integration test: `Pkg::` completion for a package the file does not import.
use std::path::PathBuf;

use compiler::query::{colon_colon_completions, hover_type};

#[test]
fn completion_ignores_import_list() {
    let dir = PathBuf::from(std::env::var("REPRO_DIR").expect("REPRO_DIR"));

    // the text an editor sees while typing: line 5 is `    let z = Calc::` , cursor at col 18
    let path = dir.join("proj").join("main.gom");
    let src = std::fs::read_to_string(&path).unwrap();
    let offered = colon_colon_completions(&path, &src, 5, 18)
        .map(|items| items.into_iter().map(|i| format!("{} ({:?})", i.name, i.kind)).collect::<Vec<_>>());
    println!("completions after `Calc::` in a file that imports only Util = {:?}", offered);

    // the same file with the offered item inserted
    let path2 = dir.join("proj_inserted").join("main.gom");
    let src2 = std::fs::read_to_string(&path2).unwrap();
    // line 5: `    let z = Calc::mul(y, 2);`  `mul` at col 18
    let hover = hover_type(&path2, &src2, 5, 18);
    println!("hover on `mul` in `Calc::mul(y, 2)` = {:?}", hover);

    let present = offered.map(|o| o.iter().any(|s| s.starts_with("mul"))).unwrap_or(false);
    println!("{}", if present { "DEFECT PRESENT" } else { "DEFECT ABSENT" });
}
