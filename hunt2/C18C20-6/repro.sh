#!/bin/sh
# Run from the repository root. Exit 0 = defect present.
HERE=$(cd "$(dirname "$0")" && pwd)
ROOT=$(pwd)
T="$ROOT/crates/compiler/tests/zz_repro_c20_imports.rs"
trap 'rm -f "$T"' EXIT
cargo build --offline -p compiler >/dev/null 2>&1 || { echo "build failed"; exit 2; }

echo "--- the compiler on the file with the offered completion inserted (proj_inserted/main.gom):"
CMP=$( cd "$HERE/proj_inserted" && "$ROOT/target/debug/compiler" run ./main.gom 2>&1 )
echo "$CMP" | sed -n '1,5p'
echo "$CMP" | grep -q 'Calc not found' || { echo "compiler accepts Calc::mul: nothing to show"; exit 1; }

echo "--- editor queries:"
cp "$HERE/zz_repro_c20_imports.rs" "$T"
OUT=$(REPRO_DIR="$HERE" cargo test --offline -p compiler --test zz_repro_c20_imports -- --nocapture 2>&1)
echo "$OUT" | grep -E '^completions|^hover|DEFECT'
echo "$OUT" | grep -q 'DEFECT PRESENT'
