#!/bin/bash
# Optional: shows the exponential checking time (same root cause). Run from the repo root.
C="${COMPILER:-./target/debug/compiler}"
for n in 16 18 20; do
  d=$(mktemp -d)
  python3 - "$n" > "$d/main.gom" <<'PY'
import sys
n=int(sys.argv[1])
print("trait Inc { fn inc(Self) -> Self; }")
print("impl Inc for int32 { fn inc(self: int32) -> int32 { self + 1 } }")
print("fn main() {\n    let r = " + "Inc::inc("*n + "0" + ")"*n + ";\n    string_println(int32_to_string(r))\n}")
PY
  s=$(date +%s.%N); "$C" run "$d/main.gom" >/dev/null 2>&1; e=$(date +%s.%N)
  echo "depth $n: $(echo "$e - $s" | bc) s"
  rm -rf "$d"
done
