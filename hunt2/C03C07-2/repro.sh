#!/bin/bash
# Run from the repository root. Exit 0 = defect present.
here="$(cd "$(dirname "$0")" && pwd)"
C="${COMPILER:-./target/debug/compiler}"
[ -x "$C" ] || cargo build --offline -q -p compiler || exit 2
fail=0

out=$("$C" run --dump-tast --dump-core --dump-go "$here/prog/main.gom" 2>&1)
echo "--- prog: Core main ---"; echo "$out" | sed -n '/^== Core ==/,/^== Go ==/p' | sed -n '/^fn main/,/^}/p'
echo "$out" | grep -q 'describe(to_dyn\[Show\]{P}(to_dyn\[Show\]{P}(p/[0-9]*)))' || fail=1
# Go: a dyn__Show whose data is another dyn__Show, with P's vtable
echo "--- prog: Go main0 ---"; echo "$out" | sed -n '/^func main0/,/^}/p'
n=$(echo "$out" | sed -n '/^func main0/,/^}/p' | grep -c 'vtable: dyn__Show__vtable__P()')
[ "$n" -eq 2 ] || fail=1
echo "$out" | grep -q 'self.(P)' || fail=1

out=$("$C" run --dump-core "$here/nested/main.gom" 2>&1)
n=$(echo "$out" | sed -n '/^fn main/,/^}/p' | grep -o 'to_dyn\[Show\]{P}' | wc -l)
echo "--- nested: number of to_dyn wrappers around p: $n (expected 1)"
[ "$n" -eq 4 ] || fail=1

if [ $fail -eq 0 ]; then echo "DEFECT PRESENT"; exit 0; else echo "defect absent"; exit 1; fi
