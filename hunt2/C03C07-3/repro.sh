#!/bin/bash
# Run from the repository root. Exit 0 = defect present.
here="$(cd "$(dirname "$0")" && pwd)"
C="${COMPILER:-./target/debug/compiler}"
[ -x "$C" ] || cargo build --offline -q -p compiler || exit 2
fail=0
for v in enum struct; do
  out=$( (ulimit -v 4000000; timeout 120 "$C" run --dump-mono "$here/$v/main.gom") 2>&1 ); rc=$?
  echo "--- $v: exit code $rc"; echo "$out" | tail -3
  # accepted by the typer (no diagnostic), then no Mono dump: stack overflow (134), memory
  # exhaustion or timeout (124)
  echo "$out" | grep -q '^error' && fail=1
  echo "$out" | grep -q '^== Mono ==' && fail=1
  case $rc in 134|124|137|139|101) ;; *) fail=1;; esac
done
if [ $fail -eq 0 ]; then echo "DEFECT PRESENT"; exit 0; else echo "defect absent"; exit 1; fi
