#!/bin/sh
# Run from the repository root. Exits 0 when the defect is present.
here=$(cd "$(dirname "$0")" && pwd)
cargo build --offline -q -p compiler 2>/dev/null || cargo build --offline -p compiler || exit 2
out=$(./target/debug/compiler run --dump-go "$here/prog/main.gom" 2>&1)
echo "$out" | sed -n '/^func main0/,/^}/p'
# variable arguments keep their goml type ...
echo "$out" | grep -q 'fmt.Sprint(v__' || exit 1
# ... literal arguments are emitted as bare untyped Go constants into `...any` parameters
echo "$out" | grep -q 'fmt.Sprint(0.10000000149011612)' || exit 1
echo "$out" | grep -q 'fmt.Sprintf("%T", 5)' || exit 1
echo "$out" | grep -q 'fmt.Sprint(18446744073709551615)' || exit 1
echo "DEFECT PRESENT: typed goml literals reach interface-typed Go parameters as untyped constants"
exit 0
