#!/bin/bash
# Run from the repository root. Exits 0 when the defect is PRESENT.
here="$(cd "$(dirname "$0")" && pwd)"
GOML="${GOML:-./target/debug/compiler}"
if [ ! -x "$GOML" ]; then
    cargo build --offline -p compiler >/dev/null 2>&1 || { echo "cannot build compiler"; exit 2; }
fi

emit() { "$GOML" run --dump-go "$1" 2>&1 | awk '/^package main/{p=1} p'; }

go_text="$(emit "$here/prog/main.gom")"
ren_text="$(emit "$here/prog_renamed/main.gom")"
if [ -z "$go_text" ] || [ -z "$ren_text" ]; then
    echo "program was not accepted (no Go emitted)"; exit 3
fi

echo "--- type declarations emitted for prog (struct TParam / enum TParamKind):"
printf '%s\n' "$go_text" | grep -E '^type ' || echo "(none)"
echo "--- type declarations emitted for prog_renamed (TParam -> TyVar):"
printf '%s\n' "$ren_text" | grep -E '^type '
echo "--- uses in prog:"
printf '%s\n' "$go_text" | grep -E 'TParam|Bounded\{|case Plain' | head

# sanity: the renamed program gets its declarations
printf '%s\n' "$ren_text" | grep -q '^type TyVar struct' || { echo "unexpected: renamed program has no struct either"; exit 3; }

uses=$(printf '%s\n' "$go_text" | grep -c 'p__[0-9]* TParam')
decl=$(printf '%s\n' "$go_text" | grep -c '^type TParam struct')
decl_enum=$(printf '%s\n' "$go_text" | grep -c '^type TParamKind interface')
decl_variant=$(printf '%s\n' "$go_text" | grep -c '^type Bounded struct')
if [ "$uses" -ge 1 ] && [ "$decl" -eq 0 ] && [ "$decl_enum" -eq 0 ] && [ "$decl_variant" -eq 0 ]; then
    echo
    echo "DEFECT PRESENT: Go text uses TParam / TParamKind / Plain / Bounded but declares none of them"
    exit 0
fi
echo "defect absent"
exit 1
