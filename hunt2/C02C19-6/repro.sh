#!/bin/bash
# Run from the repository root. Exits 0 when the defect is PRESENT.
here="$(cd "$(dirname "$0")" && pwd)"
GOML="${GOML:-./target/debug/compiler}"
if [ ! -x "$GOML" ]; then
    cargo build --offline -p compiler >/dev/null 2>&1 || { echo "cannot build compiler"; exit 2; }
fi

emit() { "$GOML" run --dump-go "$1" 2>&1 | awk '/^package main/{p=1} p'; }

go_text="$(emit "$here/prog/main.gom")"
let_text="$(emit "$here/prog_letbound/main.gom")"
if [ -z "$go_text" ]; then echo "program was not accepted (no Go emitted)"; exit 3; fi

echo "--- prog: pick(10)(20, 30)"
printf '%s\n' "$go_text" | sed -n '/^type closure_env_pick_0/,/^}/p;/^func main0/,/^}/p'
echo "--- prog_letbound: let f = pick(10); f(20, 30)"
printf '%s\n' "$let_text" | sed -n '/^func main0/,/^}/p'

tmp=$(printf '%s\n' "$go_text" | sed -n 's/^ *var \(t[0-9]*\) closure_env_pick_0 = pick(10)$/\1/p' | head -1)
if [ -n "$tmp" ] && printf '%s\n' "$go_text" | grep -q "int32 = ${tmp}(20, 30)\$"; then
    echo
    echo "DEFECT PRESENT: ${tmp} has the struct type closure_env_pick_0 and is called like a function: ${tmp}(20, 30)"
    exit 0
fi
echo "defect absent"
exit 1
