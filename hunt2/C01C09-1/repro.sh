#!/bin/bash
# Run from the repository root.  Exit 0 = defect present.
set -u
here="$(cd "$(dirname "${BASH_SOURCE[0]}")" && pwd)"
cargo build --offline -q -p compiler 2>/dev/null || cargo build --offline -p compiler || exit 2
out="$(./target/debug/compiler run --dump-tast --dump-go "$here/prog/main.gom" 2>&1)"
echo "$out" | grep -n "to_dyn\|data:\|vtable:" 
# The single source-level coercion `mk(7)` shows up twice, nested, in the typed AST ...
echo "$out" | grep -q 'to_dyn\[Show\]{int32}(to_dyn\[Show\]{int32}(7))' || { echo "defect absent: coercion applied once"; exit 1; }
# ... and the emitted Go wraps a dyn__Show value in a second dyn__Show with the int32 vtable.
n=$(echo "$out" | sed -n '/^func main0/,/^}/p' | grep -c 'vtable: dyn__Show__vtable__int32()')
if [ "$n" -ge 2 ]; then
  echo "DEFECT PRESENT: main0 builds $n nested dyn__Show values for one coercion; dyn__Show__wrap__int32__show will do self.(int32) on a dyn__Show and panic"
  exit 0
fi
echo "defect absent"; exit 1
