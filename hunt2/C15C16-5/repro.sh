#!/bin/bash
# Run from the repository root. Exit 0 = defect present.
# Temporarily adds crates/compiler/tests/hunt_c16_completions.rs and removes it again.
HERE="$(cd "$(dirname "$0")" && pwd)"
T=crates/compiler/tests/hunt_c16_completions.rs
cp "$HERE/hunt_c16_completions.rs" "$T" || exit 2
trap 'rm -f "$T"' EXIT
out="$(cargo test --offline -p compiler --test hunt_c16_completions -- --nocapture 2>&1)"; rc=$?
echo "$out" | grep -E 'completions|diagnostics for|test result|DEFECT|panicked'
[ $rc -eq 0 ] && { echo "DEFECT PRESENT"; exit 0; }
exit 1
