// Throw-away integration test: copy to crates/compiler/tests/ (repro.sh does that).
// Project: Main imports A, A imports B. Main does NOT import B.
use std::fs;

fn project() -> tempfile::TempDir {
    let dir = tempfile::tempdir().unwrap();
    fs::create_dir_all(dir.path().join("A")).unwrap();
    fs::create_dir_all(dir.path().join("B")).unwrap();
    fs::write(
        dir.path().join("B/lib.gom"),
        "package B\n\nstruct S { v: int32 }\nenum E { X, Y(int32) }\ntrait Tr { fn m(Self) -> int32; }\nimpl S { fn get(self: S) -> int32 { self.v } }\nfn f(x: int32) -> int32 { x + 1 }\nfn mk() -> S { S { v: 1 } }\n",
    )
    .unwrap();
    fs::write(
        dir.path().join("A/lib.gom"),
        "package A\nimport B\n\nfn mk() -> B::S { B::mk() }\n",
    )
    .unwrap();
    dir
}

#[test]
fn colon_colon_completion_offers_items_of_a_package_that_is_not_imported() {
    let dir = project();
    let main = dir.path().join("main.gom");
    //                                   line 3:      let x = B::;
    let src = "package Main\nimport A\nfn main() -> unit {\n    let x = B::;\n    ()\n}\n";
    fs::write(&main, src).unwrap();
    let items = compiler::query::colon_colon_completions(&main, src, 3, 15).unwrap_or_default();
    let names: Vec<String> = items.iter().map(|i| i.name.clone()).collect();
    println!("`B::` completions in Main (imports only A): {:?}", names);

    // what the type checker says about the offered name:
    let used = "package Main\nimport A\nfn main() -> unit {\n    let x = B::f(1);\n    ()\n}\n";
    fs::write(&main, used).unwrap();
    let (_t, _g, diags) = compiler::pipeline::pipeline::typecheck_with_packages(&main, used).unwrap();
    let msgs = compiler::env::format_typer_diagnostics(&diags);
    println!("diagnostics for `B::f(1)`: {:?}", msgs);

    assert!(names.contains(&"f".to_string()) && names.contains(&"S".to_string()), "DEFECT ABSENT");
    assert!(!msgs.is_empty(), "B::f type-checks?!");
}

#[test]
fn dot_completion_offers_members_the_type_checker_rejects() {
    let dir = project();
    let main = dir.path().join("main.gom");
    //                                   line 4:      let x = s.;
    let src = "package Main\nimport A\nfn main() -> unit {\n    let s = A::mk();\n    let x = s.;\n    ()\n}\n";
    fs::write(&main, src).unwrap();
    let items = compiler::query::dot_completions(&main, src, 4, 14).unwrap_or_default();
    let names: Vec<String> = items.iter().map(|i| i.name.clone()).collect();
    println!("`s.` completions (s: B::S, B not imported by Main): {:?}", names);

    let used = "package Main\nimport A\nfn main() -> unit {\n    let s = A::mk();\n    let x = s.v;\n    ()\n}\n";
    fs::write(&main, used).unwrap();
    let (_t, _g, diags) = compiler::pipeline::pipeline::typecheck_with_packages(&main, used).unwrap();
    let msgs = compiler::env::format_typer_diagnostics(&diags);
    println!("diagnostics for `s.v`: {:?}", msgs);

    assert!(names.contains(&"v".to_string()), "DEFECT ABSENT");
    assert!(!msgs.is_empty(), "s.v type-checks?!");
}
