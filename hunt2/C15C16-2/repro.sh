#!/bin/bash
# Run from the repository root. Exit 0 = defect present.
HERE="$(cd "$(dirname "$0")" && pwd)"
BIN="${GOML_BIN:-./target/debug/compiler}"
[ -x "$BIN" ] || cargo build --offline -q -p compiler || exit 2
W="$(mktemp -d)"; trap 'rm -rf "$W"' EXIT
cp -r "$HERE/project" "$W/project"
mkdir -p "$W/s1" "$W/s2" "$W/s3" "$W/s4"
cp "$HERE/single/impl_first.gom" "$W/s1/main.gom"
cp "$HERE/single/trait_first.gom" "$W/s2/main.gom"
cp "$HERE/single/dyn_first.gom" "$W/s3/main.gom"
cp "$HERE/single/extern_first.gom" "$W/s4/main.gom"
typer_errors() { "$BIN" run --dump-go "$1" 2>&1 | grep '^error'; }

present=0
echo "== package Shapes = circle.gom (impl) + traits.gom (trait): files are read in name order"
e1="$(typer_errors "$W/project/main.gom")"; echo "$e1"
mv "$W/project/Shapes/traits.gom" "$W/project/Shapes/area.gom"
echo "== same package after renaming traits.gom -> area.gom"
e2="$(typer_errors "$W/project/main.gom")"; echo "${e2:-(accepted)}"
if echo "$e1" | grep -q 'Trait Shapes::Area is not defined' && [ -z "$e2" ]; then present=1; fi

echo "== one file, impl written above the trait"
e3="$(typer_errors "$W/s1/main.gom")"; echo "$e3"
echo "== one file, trait written above the impl"
e4="$(typer_errors "$W/s2/main.gom")"; echo "${e4:-(accepted)}"
echo "$e3" | grep -q 'Trait T is not defined' && [ -z "$e4" ] || present=0
echo "== dyn T in a signature above trait T"
typer_errors "$W/s3/main.gom"
echo "== extern type declared below the extern function that uses it"
typer_errors "$W/s4/main.gom"
[ "$present" = 1 ] && { echo "DEFECT PRESENT"; exit 0; }
exit 1
