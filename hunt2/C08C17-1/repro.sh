#!/bin/sh
# Run from the repository root. Exits 0 when the defect is PRESENT.
HERE="$(cd "$(dirname "$0")" && pwd)"
BIN=./target/debug/compiler
[ -x "$BIN" ] || cargo build --offline -p compiler >/dev/null 2>&1 || { echo "build failed"; exit 2; }
OUT="$($BIN run --dump-tast --dump-go "$HERE/prog/main.gom" 2>&1)"
echo "$OUT" | grep -n "to_dyn" 
# 1) the typed AST wraps the same value twice
echo "$OUT" | grep -q 'to_dyn\[Show\]{P}(to_dyn\[Show\]{P}(' || { echo "no double coercion: defect absent"; exit 1; }
# 2) the emitted Go stores a dyn__Show (not a P) in the data word of a dyn__Show whose vtable is P's
INNER="$(echo "$OUT" | awk '/var t[0-9]+ dyn__Show = dyn__Show\{/ {v=$2} /data: t[0-9]+,/ {print v" <- "$2}')"
echo "nested dyn construction(s): $INNER"
[ -n "$INNER" ] || exit 1
echo "DEFECT PRESENT: dyn__Show__wrap__P__show will evaluate self.(P) on a dyn__Show value -> run-time panic"
exit 0
