#!/bin/sh
# Run from the repository root. Exit 0 = defect present.
HERE=$(cd "$(dirname "$0")" && pwd)
ROOT=$(pwd)
cargo build --offline -p compiler >/dev/null 2>&1 || { echo "build failed"; exit 2; }
C="$ROOT/target/debug/compiler"

run() { ( cd "$HERE/$1" && "$C" run --dump-go ./main.gom 2>&1 ); }

echo "--- the same structs without derive are accepted (Go is emitted):"
W=$(run without_derive); echo "$W" | grep -c '^func main0' 
echo "$W" | grep -q '^error' && { echo "unexpected: rejected without derive"; exit 2; }

echo "--- the same derive with one letter of the field names changed is accepted:"
R=$(run renamed); echo "$R" | grep -E '^func _goml_inherent_(Doc|Flags)' 
echo "$R" | grep -q '^error' && { echo "unexpected: renamed variant rejected"; exit 2; }

echo "--- with the field names json_escape_string / bool_to_string:"
D=$(run with_derive); echo "$D" | sed -n '1,6p'
echo "$D" | grep -q 'Types are not equal: .* and TFunc'
