#!/bin/bash
# Run from the repository root. Exit 0 = defect present.
HERE="$(cd "$(dirname "$0")" && pwd)"
BIN="${GOML_BIN:-target/debug/compiler}"
[ -x "$BIN" ] || cargo build --offline -q -p compiler || exit 2
out=$("$BIN" run --dump-go "$HERE/prog/main.gom" 2>&1)
echo "$out" | grep -E "^error" | head
echo "$out" | sed -n '/^func first_of(/,/^func params/p'
# defect: no diagnostic at all, Go is emitted, and the rightmost occurrence silently wins
echo "$out" | grep -q "^error" && exit 1
echo "$out" | grep -q "^== Go ==" || exit 1
echo "$out" | grep -Eq "var x[0-9]+ string = mtmp[0-9]+\._1" || exit 1     # (x, x): x is component 1
echo "$out" | grep -Eq "var x[0-9]+ int32 = e__[0-9]+\._1" || exit 1       # A(n, n): n is field 1, no equality test
echo "DEFECT PRESENT: a name bound twice in one pattern / parameter list is accepted, the rightmost binder wins"
exit 0
