#!/bin/bash
# Run from the repository root. Exit 0 = defect present.
HERE="$(cd "$(dirname "$0")" && pwd)"
BIN="${GOML_BIN:-./target/debug/compiler}"
[ -x "$BIN" ] || cargo build --offline -q -p compiler || exit 2
BIN="$(cd "$(dirname "$BIN")" && pwd)/$(basename "$BIN")"
W="$(mktemp -d)"; trap 'rm -rf "$W"' EXIT
cp -r "$HERE/v1/." "$W/"; mkdir -p "$W/out"; cd "$W"
b() { "$BIN" build --package "$1" --input "$2" --interface-path out --output "out/$1"; }
b A A/lib.gom && b B B/lib.gom || exit 2
echo "== edit: package A now imports B (B imports A): an import cycle"
cp "$HERE/v2/A/lib.gom" A/lib.gom
"$BIN" check --package A --input A/lib.gom --interface-path out --output out/A; c1=$?; echo "check A rc=$c1"
b A A/lib.gom; c2=$?; echo "build A rc=$c2"
b B B/lib.gom; c3=$?; echo "build B rc=$c3"
b Main main.gom; c4=$?; echo "build Main rc=$c4"
msgs=""
for i in 1 2 3 4; do
  m="$("$BIN" link --input out/A.core out/B.core out/Main.core --output out/main.go 2>&1)"; rc=$?
  adv="$(echo "$m" | grep -o '(rebuild [A-Za-z]*)')"; echo "link rc=$rc $adv"; msgs="$msgs $adv"
  case "$adv" in *A*) b A A/lib.gom;; *B*) b B B/lib.gom;; *Main*) b Main main.gom;; esac
done
echo "== whole-program compilation of the same sources"
"$BIN" run main.gom 2>&1 | tail -1
if [ $c1 = 0 ] && [ $c2 = 0 ] && [ $c3 = 0 ] && ! echo "$msgs $m" | grep -qi cycle; then echo "DEFECT PRESENT"; exit 0; fi
exit 1
