#!/bin/bash
# Run from the repository root. Exits 0 when the defect is present.
# (match_N.gom were produced by `python3 gen.py N`; python is not needed to run this script.)
set -u
ROOT=$(pwd)
HERE=$(cd "$(dirname "$0")" && pwd)
BIN="$ROOT/target/debug/compiler"
[ -x "$BIN" ] || cargo build --offline -p compiler >/dev/null 2>&1
WORK=$(mktemp -d); trap 'rm -rf "$WORK"' EXIT

# 1. growth: every two more tuple columns (four more match arms) multiply time, memory and output by four
for n in 8 10 12 14; do
  mkdir -p "$WORK/$n"; cp "$HERE/match_$n.gom" "$WORK/$n/main.gom"
  s=$(date +%s.%N)
  lines=$(cd "$WORK/$n" && "$BIN" run --dump-go main.gom 2>/dev/null | wc -l)
  e=$(date +%s.%N)
  printf "N=%2d  source lines=%3d  emitted Go lines=%7d  time=%.2fs\n" $n $(wc -l < "$HERE/match_$n.gom") $lines $(echo "$e - $s" | bc)
  eval "L$n=$lines"
done

# 2. a 38-line program cannot be compiled within 1.5 GB of address space: the process aborts
mkdir -p "$WORK/16"; cp "$HERE/match_16.gom" "$WORK/16/main.gom"
out=$(cd "$WORK/16" && ulimit -v 1500000 && timeout 300 "$BIN" run main.gom 2>&1); rc=$?
echo "N=16 under ulimit -v 1500000: exit=$rc :: $(echo "$out" | grep -m1 -i 'memory allocation')"

# present if the emitted code at least triples per step (exponential) and N=16 aborts/times out
if [ "$L14" -gt $((3 * L12)) ] && [ "$L12" -gt $((3 * L10)) ] && { [ $rc -eq 134 ] || [ $rc -eq 124 ]; }; then
  echo "DEFECT PRESENT"; exit 0
fi
echo "defect absent"; exit 1
