#!/usr/bin/env python3
# usage: gen.py N  -> a goml program whose only interesting function is one match with 2N+1 arms
import sys
n = int(sys.argv[1])
print("enum E { A, B, C }")
print("fn f(t: (" + ", ".join(["E"] * (n + 1)) + ")) -> int32 {")
print("  match t {")
k = 0
for c in ["E::A", "E::B"]:
    for i in range(n):
        print("    (" + ", ".join([c if j == i else "_" for j in range(n)]) + f", E::C) => {k},")
        k += 1
print("    _ => 99")
print("  }\n}")
print("fn main() -> unit { string_println(int32_to_string(f((" + ", ".join(["E::C"] * (n + 1)) + ")))) }")
