#!/bin/sh
# Run from the repository root. Exits 0 when the defect is PRESENT.
HERE="$(cd "$(dirname "$0")" && pwd)"
BIN=./target/debug/compiler
[ -x "$BIN" ] || cargo build --offline -p compiler >/dev/null 2>&1 || { echo "build failed"; exit 2; }
A="$($BIN run --dump-tast "$HERE/prog_a/main.gom" 2>&1)"
B="$($BIN run --dump-tast "$HERE/prog_b/main.gom" 2>&1)"
OK="$($BIN run --dump-tast "$HERE/prog_ok/main.gom" 2>&1)"
echo "--- prog_a (dyn value from a call passed to a dyn parameter / dyn let)"; echo "$A" | grep "error"
echo "--- prog_b (Tr::m on a dyn receiver coming from a call / field / vec_get)"; echo "$B" | grep "error"
echo "--- prog_ok (control)"; echo "$OK" | grep -c "error (typer)"
# control must type-check (it only fails later for lack of a Go toolchain)
echo "$OK" | grep -q "error (typer)" && { echo "control program rejected: inconclusive"; exit 2; }
NA=$(echo "$A" | grep -c "Cannot convert non-concrete type TVar")
NB=$(echo "$B" | grep -c "No instance found for trait Show<TDyn(Show)>")
if [ "$NA" -ge 1 ] && [ "$NB" -ge 1 ]; then
  echo "DEFECT PRESENT: valid uses of an existing dyn Show value are rejected ($NA + $NB diagnostics)"
  exit 0
fi
echo "defect absent"; exit 1
