#!/bin/bash
# Run from the repository root.  Exit 0 = defect present.
set -u
here="$(cd "$(dirname "${BASH_SOURCE[0]}")" && pwd)"
cargo build --offline -q -p compiler 2>/dev/null || cargo build --offline -p compiler || exit 2
out="$(RUST_BACKTRACE=0 ./target/debug/compiler run --dump-go "$here/prog/main.gom" 2>&1)"
echo "$out" | head -5
if echo "$out" | grep -q "panicked at .*go/goast.rs" && echo "$out" | grep -q "generic types not supported in Go backend"; then
  echo "DEFECT PRESENT: the compiler panics on a well-typed program (dyn trait whose method signature mentions Opt[int32])"
  exit 0
fi
echo "defect absent"; exit 1
