#!/bin/sh
# Run from the repository root. Exits 0 when the defect is present.
here=$(cd "$(dirname "$0")" && pwd)
cargo build --offline -q -p compiler 2>/dev/null || cargo build --offline -p compiler || exit 2
out=$(./target/debug/compiler run --dump-go "$here/prog/main.gom" 2>&1)
body=$(echo "$out" | sed -n '/^func muladd(/,/^}/p')
echo "$body"
# the product is stored in a temporary WITHOUT an explicit float32(...) conversion ...
tmp=$(echo "$body" | sed -n 's/^ *var \(t[0-9]*\) float32 = x__[0-9]* \* y__[0-9]*$/\1/p')
[ -n "$tmp" ] || exit 1
# ... and that temporary is the operand of the following addition
echo "$body" | grep -Eq "= $tmp \+ z__[0-9]+\$" || exit 1
# no explicit rounding conversion anywhere in the function
echo "$body" | grep -q 'float32(' && exit 1
echo "DEFECT PRESENT: 't = x*y; r = t + z' - the Go spec allows this to be fused into one FMA (no float32 rounding of x*y)"
exit 0
