#!/bin/bash
# Run from the repository root. Exits 0 when the defect is present.
set -u
ROOT=$(pwd)
HERE=$(cd "$(dirname "$0")" && pwd)
BIN="$ROOT/target/debug/compiler"
[ -x "$BIN" ] || cargo build --offline -p compiler >/dev/null 2>&1
WORK=$(mktemp -d); trap 'rm -rf "$WORK"' EXIT
mkdir -p "$WORK/a" "$WORK/b"
cp "$HERE/nested_linear.gom" "$WORK/a/main.gom"
cp "$HERE/nested_tuple.gom" "$WORK/b/main.gom"

# 1. check and build accept the program
(cd "$WORK/a" && "$BIN" check --package Main --input main.gom --output "$WORK/a/out") || { echo "check rejected the program"; exit 2; }
(cd "$WORK/a" && "$BIN" build --package Main --input main.gom --output "$WORK/a/out") || { echo "build rejected the program"; exit 2; }

# 2. run (whole program) and link (separate) die with a stack overflow
out1=$(cd "$WORK/a" && timeout 120 "$BIN" run main.gom 2>&1); rc1=$?
out2=$(cd "$WORK/a" && timeout 120 "$BIN" link --input out.core --output "$WORK/a/out.go" 2>&1); rc2=$?
echo "run : exit=$rc1 :: $(echo "$out1" | grep -m1 -i 'overflow')"
echo "link: exit=$rc2 :: $(echo "$out2" | grep -m1 -i 'overflow')"

# 3. the tuple variant neither finishes nor fails within 20 s (memory grows without bound)
(cd "$WORK/b" && ulimit -v 4000000 && timeout 20 "$BIN" run main.gom >/dev/null 2>&1); rc3=$?
echo "tuple variant: exit=$rc3 (124 = still running after 20 s, 134 = aborted on allocation failure)"

if echo "$out1$out2" | grep -qi "overflowed its stack" || [ $rc1 -eq 124 ] || [ $rc1 -eq 134 ]; then
  echo "DEFECT PRESENT"; exit 0
fi
echo "defect absent"; exit 1
