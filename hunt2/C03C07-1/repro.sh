#!/bin/bash
# Run from the repository root. Exit 0 = defect present.
here="$(cd "$(dirname "$0")" && pwd)"
C="${COMPILER:-./target/debug/compiler}"
[ -x "$C" ] || cargo build --offline -q -p compiler || exit 2
fail=0

out=$("$C" run --dump-core --dump-mono --dump-go "$here/silent/main.gom" 2>&1)
# typer-resolved type of both arguments is Empty, yet the unit impl / unit instance is called
echo "$out" | grep -q 'trait_impl#Show#unit#show(let _wild' || fail=1
echo "$out" | grep -q 'describe__T_unit(let _wild' || fail=1
echo "$out" | grep -q 'describe__T_Empty' && fail=1
echo "$out" | grep -Eq 'var a__[0-9]+ string = _goml_trait_impl_Show_unit_show\(t[0-9]+\)' || fail=1
echo "--- silent: Mono main ---"; echo "$out" | sed -n '/^== Mono ==/,/^== Go ==/p' | sed -n '/^fn main/,/^}/p'

out=$("$C" run --dump-mono --dump-go "$here/invalid/main.gom" 2>&1)
echo "$out" | grep -q 'sh__T_int32(let n/' || fail=1
echo "$out" | grep -q 'sh__T_string' && fail=1
echo "--- invalid: Mono main ---"; echo "$out" | sed -n '/^== Mono ==/,/^== Go ==/p' | sed -n '/^fn main/,/^}/p'

out=$("$C" run --dump-mono --dump-go "$here/dangling/main.gom" 2>&1)
echo "$out" | grep -q 'trait_impl#Show#(int32,string)#show(let w/' || fail=1
echo "--- dangling: Mono main ---"; echo "$out" | sed -n '/^== Mono ==/,/^== Go ==/p' | sed -n '/^fn main/,/^}/p'

if [ $fail -eq 0 ]; then echo "DEFECT PRESENT"; exit 0; else echo "defect absent"; exit 1; fi
