#!/bin/bash
# Run from the repository root. Exit 0 = defect present.
here="$(cd "$(dirname "$0")" && pwd)"
C="${COMPILER:-./target/debug/compiler}"
[ -x "$C" ] || cargo build --offline -q -p compiler || exit 2
fail=0
out=$("$C" run --dump-go "$here/control/main.gom" 2>&1)
echo "$out" | grep -q '^== Go ==' || { echo "control rejected: $out" | head -3; fail=1; }
out=$("$C" run --dump-go "$here/arg/main.gom" 2>&1)
echo "--- arg:  $out" | head -3
echo "$out" | grep -q 'Cannot convert non-concrete type TVar([0-9]*) to dyn Show' || fail=1
out=$("$C" run --dump-go "$here/ufcs/main.gom" 2>&1)
echo "--- ufcs: $out" | head -3
echo "$out" | grep -q 'No instance found for trait Show<TDyn(Show)> for operator show' || fail=1
if [ $fail -eq 0 ]; then echo "DEFECT PRESENT"; exit 0; else echo "defect absent"; exit 1; fi
