#!/bin/bash
# Run from the repository root. Exits 0 when the defect is present.
set -u
ROOT=$(pwd)
HERE=$(cd "$(dirname "$0")" && pwd)
BIN="$ROOT/target/debug/compiler"
[ -x "$BIN" ] || cargo build --offline -p compiler >/dev/null 2>&1
WORK=$(mktemp -d); trap 'rm -rf "$WORK"' EXIT
echo "stack limit: $(ulimit -s) kB"
present=0
for f in sum_200 sum_300 concat_300 call_300; do
  mkdir -p "$WORK/$f"; cp "$HERE/$f.gom" "$WORK/$f/main.gom"
  out=$(cd "$WORK/$f" && timeout 120 "$BIN" run main.gom 2>&1); rc=$?
  echo "$f: exit=$rc :: $(echo "$out" | grep -m1 'overflow\|failed to execute go\|error' | cut -c1-120)"
  if [ "$f" != sum_200 ] && echo "$out" | grep -q "has overflowed its stack"; then present=1; fi
done
if [ $present -eq 1 ]; then echo "DEFECT PRESENT"; exit 0; fi
echo "defect absent"; exit 1
