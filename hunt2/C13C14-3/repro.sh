#!/bin/bash
# Run from the repository root. Exits 0 when the defect is PRESENT.
# Package Main = main.gom + util.gom + alias.gom, where alias.gom is a symlink to main.gom.
#  * `run ./main.gom` accepts the package (the alias of the ENTRY file is silently dropped),
#  * `run ./util.gom`  - same directory, same sources, other entry file - rejects it
#    ("Function main is already defined": main.gom is now compiled twice),
#  * `build --package Main --input alias.gom main.gom util.gom` accepts it (de-duplicated).
# With the alias pointing at a non-entry file (alias2.gom -> util.gom) `run ./main.gom` rejects
# what `build` accepts.
set -u
ROOT=$(pwd)
cargo build --offline -q -p compiler 2>/dev/null || cargo build --offline -p compiler || exit 2
BIN="$ROOT/target/debug/compiler"
W=$(mktemp -d)
trap 'rm -rf "$W"' EXIT
mk() {
  mkdir -p "$1"
  printf 'package Main\n\nfn main() {\n    string_println(int32_to_string(helper()));\n}\n' > "$1/main.gom"
  printf 'package Main\n\nfn helper() -> int32 { 42 }\n' > "$1/util.gom"
}
status() { if grep -q 'failed to execute go' "$1" && ! grep -q '^error' "$1"; then echo ACCEPTED; else echo "REJECTED: $(grep '^error' "$1" | head -1)"; fi; }

mk "$W/p1"; ln -s main.gom "$W/p1/alias.gom"
( cd "$W/p1" && "$BIN" run ./main.gom > /dev/null 2> "$W/r1" ); s1=$(status "$W/r1")
( cd "$W/p1" && "$BIN" run ./util.gom > /dev/null 2> "$W/r2" ); s2=$(status "$W/r2")
mkdir -p "$W/o1"
( cd "$W/p1" && "$BIN" build --package Main --input alias.gom main.gom util.gom --output "$W/o1/Main" ) > "$W/b1" 2>&1; b1=$?
echo "alias.gom -> main.gom:"
echo "  run ./main.gom : $s1"
echo "  run ./util.gom : $s2"
echo "  build (3 inputs): rc=$b1"

mk "$W/p2"; ln -s util.gom "$W/p2/alias2.gom"
( cd "$W/p2" && "$BIN" run ./main.gom > /dev/null 2> "$W/r3" ); s3=$(status "$W/r3")
mkdir -p "$W/o2"
( cd "$W/p2" && "$BIN" build --package Main --input alias2.gom main.gom util.gom --output "$W/o2/Main" ) > "$W/b2" 2>&1; b2=$?
echo "alias2.gom -> util.gom:"
echo "  run ./main.gom : $s3"
echo "  build (3 inputs): rc=$b2"

case "$s1" in ACCEPTED) ;; *) echo "defect absent"; exit 1;; esac
case "$s2" in REJECTED*already\ defined*) ;; *) echo "defect absent"; exit 1;; esac
case "$s3" in REJECTED*already\ defined*) ;; *) echo "defect absent"; exit 1;; esac
[ $b1 -eq 0 ] && [ $b2 -eq 0 ] || { echo "defect absent"; exit 1; }
echo "DEFECT PRESENT"; exit 0
