// Throw-away integration test: hover on definition sites that share a name with a free function.
use std::path::{Path, PathBuf};

use compiler::query::hover_type;

#[test]
fn hover_fallback_by_name() {
    let dir = PathBuf::from(std::env::var("REPRO_DIR").expect("REPRO_DIR"));
    let src = std::fs::read_to_string(dir.join("main.gom")).unwrap();
    let path = Path::new("dummy");

    // line 0: `struct Buf { size: int32 }`                      field declaration `size` at col 13
    let field_decl = hover_type(path, &src, 0, 13);
    // line 4: `trait Sized { fn size(Self) -> bool; }`           trait method declaration at col 17
    let trait_decl = hover_type(path, &src, 4, 17);
    // line 7: `  fn size(self: Buf) -> int32 { self.size }`      inherent method definition at col 5
    let method_def = hover_type(path, &src, 7, 5);
    // line 10: `impl Sized for Buf { fn size(self: Buf) -> bool { true } }`  impl method at col 24
    let impl_def = hover_type(path, &src, 10, 24);
    // uses, for comparison
    let use_method = hover_type(path, &src, 14, 12); // b.size()
    let use_trait = hover_type(path, &src, 16, 17); // Sized::size(b)

    println!("hover field decl   `size: int32`              = {:?}   (compiler: int32)", field_decl);
    println!("hover trait decl   `fn size(Self) -> bool`    = {:?}   (compiler: (Self) -> bool)", trait_decl);
    println!("hover method def   `fn size(self: Buf) -> int32` = {:?}   (compiler: (Buf) -> int32)", method_def);
    println!("hover impl method  `fn size(self: Buf) -> bool`  = {:?}   (compiler: (Buf) -> bool)", impl_def);
    println!("hover use `b.size()` = {:?}, use `Sized::size(b)` = {:?}", use_method, use_trait);

    let wrong = |r: &Result<String, String>| r.as_deref() == Ok("(string) -> int64");
    let present = wrong(&field_decl) || wrong(&trait_decl) || wrong(&method_def) || wrong(&impl_def);
    println!("{}", if present { "DEFECT PRESENT" } else { "DEFECT ABSENT" });
}
