#!/bin/bash
# Run from the repository root. Exits 0 when the defect is PRESENT.
# A type nested 64 levels deep in an exported signature of package Lib: whole-program
# compilation accepts the project; `build Lib` writes Lib.interface, but no dependent package
# can be checked or built against it ("recursion limit exceeded"), so separate compilation
# rejects the project.
set -u
ROOT=$(pwd)
cargo build --offline -q -p compiler 2>/dev/null || cargo build --offline -p compiler || exit 2
BIN="$ROOT/target/debug/compiler"
W=$(mktemp -d)
trap 'rm -rf "$W"' EXIT
N=${N:-64}
mkdir -p "$W/p/Lib" "$W/o"
python3 - "$N" "$W/p" <<'PY'
import sys
n=int(sys.argv[1]); d=sys.argv[2]
t="Vec["*n+"int32"+"]"*n
open(d+"/Lib/l.gom","w").write("package Lib\n\nfn depth(v: %s) -> int32 { vec_len(v) }\n\nfn one() -> int32 { 1 }\n" % t)
open(d+"/main.gom","w").write("package Main\nimport Lib\n\nfn main() {\n    string_println(int32_to_string(Lib::one()));\n}\n")
PY
cd "$W/p"
"$BIN" run --dump-go ./main.gom > "$W/whole.txt" 2> "$W/whole.err"
if grep -q '_goml_Lib_x3a__x3a_one' "$W/whole.txt" && grep -q 'failed to execute go' "$W/whole.err"; then
  echo "whole-program: ACCEPTED (Go emitted)"; whole=0
else echo "whole-program rejected:"; cat "$W/whole.err"; whole=1; fi
"$BIN" build --package Lib --input Lib/l.gom --interface-path "$W/o" --output "$W/o/Lib"; rc_lib=$?
echo "build Lib: rc=$rc_lib"
"$BIN" check --package Main --input main.gom --interface-path "$W/o" --output "$W/o/MainChk" > "$W/chk.txt" 2>&1; rc_chk=$?
"$BIN" build --package Main --input main.gom --interface-path "$W/o" --output "$W/o/Main" > "$W/main.txt" 2>&1; rc_main=$?
echo "check Main: rc=$rc_chk"; echo "build Main: rc=$rc_main"; cut -c1-330 "$W/main.txt"
if [ $whole -eq 0 ] && [ $rc_lib -eq 0 ] && [ $rc_main -ne 0 ] && grep -q 'recursion limit exceeded' "$W/main.txt"; then
  echo "DEFECT PRESENT"; exit 0
fi
echo "defect absent"; exit 1
