#!/bin/sh
# Run from the repository root. Exits 0 when the defect is present.
here=$(cd "$(dirname "$0")" && pwd)
cargo build --offline -q -p compiler 2>/dev/null || cargo build --offline -p compiler || exit 2
accepted() { # $1 = directory; succeeds when the program gets as far as Go emission
  ./target/debug/compiler run --dump-go "$here/$1/main.gom" 2>&1 | grep -q '^func main0'
}
errors() { ./target/debug/compiler run --dump-go "$here/$1/main.gom" 2>&1 | grep '^error' | head -3; }
accepted empty_block_control || { echo "control 1 rejected"; exit 1; }
accepted shorthand_control   || { echo "control 2 rejected"; exit 1; }
if accepted empty_block; then echo "empty block after identifier accepted"; exit 1; fi
echo "--- if done {} else {...} / while i < n {}:"; errors empty_block
if accepted shorthand; then echo "single shorthand field accepted"; exit 1; fi
echo "--- W { value }:"; errors shorthand
echo "DEFECT PRESENT: looks_like_struct_literal misclassifies 'ident {}' and 'Name { field }'"
exit 0
