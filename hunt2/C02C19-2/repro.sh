#!/bin/bash
# Run from the repository root. Exits 0 when the defect is PRESENT.
here="$(cd "$(dirname "$0")" && pwd)"
GOML="${GOML:-./target/debug/compiler}"
if [ ! -x "$GOML" ]; then
    cargo build --offline -p compiler >/dev/null 2>&1 || { echo "cannot build compiler"; exit 2; }
fi

present=0

# --- facet A: a generic instance (Opt[int32]) in the signature of a trait used through dyn: panic
out="$("$GOML" run --dump-go "$here/prog_generic/main.gom" 2>&1)"; rc=$?
echo "--- prog_generic (dyn Lookup, fn find(Self, int32) -> Opt[int32]): exit code $rc"
printf '%s\n' "$out" | grep -E "panicked|generic types not supported|error" | head -4
static_out="$("$GOML" run --dump-go "$here/prog_generic_static/main.gom" 2>&1)"
echo "--- prog_generic_static (same program, Table used without dyn):"
printf '%s\n' "$static_out" | grep -E "_goml_trait_impl_Lookup_Table_find\(t__|panicked" | head -2
if [ "$rc" -eq 101 ] && printf '%s\n' "$out" | grep -q "generic types not supported in Go backend"; then
    echo "FACET A PRESENT: the Go back end panics on a type-correct program"
    present=1
fi

# --- facet B: tuple / ref helper types that occur only in the trait signature: not declared
go_text="$("$GOML" run --dump-go "$here/prog_helper_types/main.gom" 2>&1 | awk '/^package main/{p=1} p')"
echo "--- prog_helper_types: vtable struct"
printf '%s\n' "$go_text" | sed -n '/^type dyn__Plot_vtable struct/,/^}/p'
echo "--- declarations of the helper types it mentions:"
printf '%s\n' "$go_text" | grep -E '^type (Tuple2_int32_int32|ref_int32_x) ' || echo "(none)"
uses_tuple=$(printf '%s\n' "$go_text" | grep -c 'at func(any, Tuple2_int32_int32) string')
uses_ref=$(printf '%s\n' "$go_text" | grep -c 'cell func(any) \*ref_int32_x')
decl_tuple=$(printf '%s\n' "$go_text" | grep -c '^type Tuple2_int32_int32 struct')
decl_ref=$(printf '%s\n' "$go_text" | grep -c '^type ref_int32_x struct')
if [ "$uses_tuple" -ge 1 ] && [ "$uses_ref" -ge 1 ] && [ "$decl_tuple" -eq 0 ] && [ "$decl_ref" -eq 0 ]; then
    echo "FACET B PRESENT: dyn__Plot_vtable mentions Tuple2_int32_int32 and ref_int32_x, neither is declared"
    present=1
fi

if [ "$present" -eq 1 ]; then echo; echo "DEFECT PRESENT"; exit 0; fi
echo "defect absent"
exit 1
