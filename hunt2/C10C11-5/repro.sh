#!/bin/sh
# Run from the repository root. Exits 0 when the defect is present.
here=$(cd "$(dirname "$0")" && pwd)
cargo build --offline -q -p compiler 2>/dev/null || cargo build --offline -p compiler || exit 2
tmp=$(mktemp -d)
chk() { ./target/debug/compiler check --package Main --input "$here/$1/main.gom" --output "$tmp/$1.interface" >"$tmp/$1.log" 2>&1; }
chk control || { echo "control rejected"; cat "$tmp/control.log"; rm -rf "$tmp"; exit 1; }
echo "control (scrutinee is a parameter): accepted"
if chk prog; then echo "prog accepted"; rm -rf "$tmp"; exit 1; fi
echo "prog (scrutinee is the result of vec_get):"; grep -o 'message: "[^"]*"' "$tmp/prog.log"
grep -q 'Types are not equal: TInt32 and TUint8' "$tmp/prog.log" || { rm -rf "$tmp"; exit 1; }
if chk prog64; then echo "prog64 accepted"; rm -rf "$tmp"; exit 1; fi
echo "prog64 (scrutinee is the result of ref_get):"; grep -o 'message: "[^"]*"' "$tmp/prog64.log"
grep -q 'Integer literal 5000000000 does not fit in int32' "$tmp/prog64.log" || { rm -rf "$tmp"; exit 1; }
rm -rf "$tmp"
echo "DEFECT PRESENT: an unsuffixed integer pattern is typed int32 unless the scrutinee type is already known syntactically"
exit 0
