#!/bin/bash
# Run from the repository root. Exit 0 = defect present.
here="$(cd "$(dirname "$0")" && pwd)"
C="${COMPILER:-./target/debug/compiler}"
[ -x "$C" ] || cargo build --offline -q -p compiler || exit 2
fail=0

out=$("$C" run "$here/control/main.gom" 2>&1)
echo "--- control: $out" | head -2
echo "$out" | grep -q 'Type parameter T of function phantom does not occur in its signature' || fail=1

out=$("$C" run --dump-mono --dump-go "$here/inherent/main.gom" 2>&1)
echo "--- inherent: residue in Mono/Go:"; echo "$out" | grep -n 'Option__U\|Option__T' | head -8
echo "$out" | grep -q '^== Go ==' || fail=1                        # accepted
echo "$out" | grep -q 'let x/1 = Option__U::None' || fail=1          # type parameter U in Mono
echo "$out" | grep -q 'let x/2 = Option__T::None' || fail=1          # type parameter T in Mono
echo "$out" | grep -q 'var x__1 Option__U' || fail=1                # ... and in Go
echo "$out" | grep -q '^type Option__U' && fail=1                   # the type is never declared

out=$("$C" run --dump-mono --dump-go "$here/traitimpl/main.gom" 2>&1)
echo "--- traitimpl: residue in Mono/Go:"; echo "$out" | grep -n 'Option__T' | head -8
echo "$out" | grep -q '^== Go ==' || fail=1
echo "$out" | grep -q 'let x/1 = Option__T::None' || fail=1
echo "$out" | grep -q 'var x__1 Option__T' || fail=1
echo "$out" | grep -q '^type Option__T' && fail=1

if [ $fail -eq 0 ]; then echo "DEFECT PRESENT"; exit 0; else echo "defect absent"; exit 1; fi
