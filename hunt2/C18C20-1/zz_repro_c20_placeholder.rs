// Throw-away integration test: what the editor queries say about `p.completion_placeholder`.
use std::path::{Path, PathBuf};

use compiler::query::hover_type;

#[test]
fn placeholder_field() {
    let dir = PathBuf::from(std::env::var("REPRO_DIR").expect("REPRO_DIR"));
    let src = std::fs::read_to_string(dir.join("prog").join("main.gom")).unwrap();
    // line 4: `  let u = p.completion_placeholder;`   binder `u` at col 6, field at col 12
    let u = hover_type(Path::new("dummy"), &src, 4, 6);
    let f = hover_type(Path::new("dummy"), &src, 4, 12);
    println!("hover u = {:?}, hover `completion_placeholder` = {:?}", u, f);
}
