#!/bin/sh
# Run from the repository root. Exit 0 = defect present.
HERE=$(cd "$(dirname "$0")" && pwd)
ROOT=$(pwd)
T="$ROOT/crates/compiler/tests/zz_repro_c20_placeholder.rs"
trap 'rm -f "$T"' EXIT
cargo build --offline -p compiler >/dev/null 2>&1 || { echo "build failed"; exit 2; }
C="$ROOT/target/debug/compiler"
TMP=$(mktemp -d)

echo "--- control: a field that does not exist is a type error (control/main.gom):"
( cd "$HERE/control" && "$C" run ./main.gom 2>&1 | sed -n '1,2p' )

echo "--- prog/main.gom uses the field name 'completion_placeholder' (P has only field x)"
echo "--- compiler check:"
( cd "$HERE/prog" && "$C" check --package Main --input main.gom --output "$TMP/Main.interface" >"$TMP/check.out" 2>&1; echo "check exit code: $?"; sed -n '1,3p' "$TMP/check.out"; ls "$TMP" | grep -c interface | sed 's/^/interface files written: /' )
echo "--- compiler run:"
RUN=$( cd "$HERE/prog" && RUST_BACKTRACE=0 "$C" run ./main.gom 2>&1 )
echo "$RUN" | sed -n '1,3p'
echo "--- compiler build:"
( cd "$HERE/prog" && RUST_BACKTRACE=0 "$C" build --package Main --input main.gom --output "$TMP/Main.core" 2>&1 | sed -n '1,3p' )

echo "--- editor queries on the same text:"
cp "$HERE/zz_repro_c20_placeholder.rs" "$T"
REPRO_DIR="$HERE" cargo test --offline -p compiler --test zz_repro_c20_placeholder -- --nocapture 2>&1 | grep -E '^hover'
rm -rf "$TMP"

echo "$RUN" | grep -q 'panicked at .*compile_match.rs' && echo "$RUN" | grep -q 'has no field completion_placeholder'
