#!/bin/bash
# Run from the repository root.  Exit 0 = defect present.
set -u
here="$(cd "$(dirname "${BASH_SOURCE[0]}")" && pwd)"
cargo build --offline -q -p compiler 2>/dev/null || cargo build --offline -p compiler || exit 2
out="$(./target/debug/compiler run --dump-go "$here/prog/main.gom" 2>&1)"
echo "$out" | sed -n '/^func string_get/,/^}/p'
# the helper converts the *byte* s[i] (an integer) to a string: Go yields the UTF-8 encoding
# of the code point U+00XX, two bytes for every byte >= 0x80, not the byte itself.
if echo "$out" | sed -n '/^func string_get/,/^}/p' | grep -q 'return string(s\[i\])'; then
  echo "DEFECT PRESENT: string_get is emitted as string(s[i]) (integer->string conversion)"
  exit 0
fi
echo "defect absent"; exit 1
