#!/bin/bash
# Run from the repository root.  Exit 0 = defect present.
set -u
here="$(cd "$(dirname "${BASH_SOURCE[0]}")" && pwd)"
cargo build --offline -q -p compiler 2>/dev/null || cargo build --offline -p compiler || exit 2

a="$(./target/debug/compiler run --dump-go "$here/prog_len/main.gom" 2>&1)"
echo "---- prog_len (relevant Go) ----"
echo "$a" | grep -A2 '^func string_len\|^func len'
# the runtime helper calls Go's builtin len by its bare name ...
echo "$a" | grep -q 'return int32(len(s))' || { echo "defect absent: helper no longer uses bare len"; exit 1; }
# ... and the user function is emitted at package level under the same bare name
echo "$a" | grep -q '^func len(s__0 string) int32' || { echo "defect absent: user fn len is renamed"; exit 1; }

b="$(./target/debug/compiler run --dump-go "$here/prog_nil/main.gom" 2>&1)"
echo "---- prog_nil (relevant Go) ----"
echo "$b" | grep -n '^type nil struct\| = nil$'
echo "$b" | grep -q '^type nil struct' || { echo "defect absent: variant nil is renamed"; exit 1; }
echo "$b" | grep -q '\[\]int32 = nil$' || { echo "defect absent: vec_new no longer emits bare nil"; exit 1; }
echo "DEFECT PRESENT: Go predeclared identifiers (len, nil, ...) are emitted verbatim for user functions / variants"
exit 0
