#!/bin/bash
# Run from the repository root. Exits 0 when the defect is PRESENT.
here="$(cd "$(dirname "$0")" && pwd)"
GOML="${GOML:-./target/debug/compiler}"
if [ ! -x "$GOML" ]; then
    cargo build --offline -p compiler >/dev/null 2>&1 || { echo "cannot build compiler"; exit 2; }
fi

emit() { "$GOML" run --dump-go "$1" 2>&1 | awk '/^package main/{p=1} p'; }

go_text="$(emit "$here/prog/main.gom")"
inh_text="$(emit "$here/prog_inherent/main.gom")"
ren_text="$(emit "$here/prog_renamed/main.gom")"
if [ -z "$go_text" ]; then echo "program was not accepted (no Go emitted)"; exit 3; fi

echo "--- prog: trait impl functions"
printf '%s\n' "$go_text" | grep -E '^func _goml_trait_impl'
echo "--- prog_renamed (User_json -> UserJson): trait impl functions"
printf '%s\n' "$ren_text" | grep -E '^func _goml_trait_impl'
echo "--- prog_inherent: inherent methods"
printf '%s\n' "$inh_text" | grep -E '^func _goml_inherent'

n=$(printf '%s\n' "$go_text" | grep -c '^func _goml_trait_impl_Codec_User_json_encode(')
m=$(printf '%s\n' "$inh_text" | grep -c '^func _goml_inherent_A_A_A_A_b(')
if [ "$n" -eq 2 ]; then
    echo
    echo "DEFECT PRESENT: User::json_encode and User_json::encode are both declared as _goml_trait_impl_Codec_User_json_encode"
    [ "$m" -eq 2 ] && echo "(also: A::A_A_b and A_A::b are both declared as _goml_inherent_A_A_A_A_b)"
    exit 0
fi
echo "defect absent"
exit 1
