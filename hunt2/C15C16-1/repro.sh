#!/bin/bash
# Run from the repository root. Exit 0 = defect present.
HERE="$(cd "$(dirname "$0")" && pwd)"
BIN="${GOML_BIN:-./target/debug/compiler}"
[ -x "$BIN" ] || cargo build --offline -q -p compiler || exit 2
W="$(mktemp -d)"; trap 'rm -rf "$W"' EXIT
cp -r "$HERE/trait_dup" "$HERE/struct_enum" "$W/"

# (a) trait Shape is defined twice in package Main (two files). Accepted; the impl was
#     checked against the first definition only, and Go that calls a function which is
#     never declared is emitted.
out_a="$("$BIN" run --dump-go "$W/trait_dup/main.gom" 2>&1)"
echo "$out_a" | grep -q '^error' && { echo "trait_dup: rejected (defect absent)"; exit 1; }
calls=$(echo "$out_a" | grep -c '_goml_trait_impl_Shape_Square_name(')
decls=$(echo "$out_a" | grep -c '^func _goml_trait_impl_Shape_Square_name(')
echo "trait_dup: accepted; calls of _goml_trait_impl_Shape_Square_name: $calls, declarations: $decls"
[ "$calls" -ge 1 ] && [ "$decls" -eq 0 ] || exit 1

# (a') with the two files in the other order the same package is rejected
mv "$W/trait_dup/shapes.gom" "$W/trait_dup/a_shapes.gom"
mv "$W/trait_dup/a_square.gom" "$W/trait_dup/square.gom"
out_a2="$("$BIN" run --dump-go "$W/trait_dup/main.gom" 2>&1)"
echo "$out_a2" | grep '^error' | head -2
echo "$out_a2" | grep -q '^error' || { echo "reordered files: expected rejection not seen"; exit 1; }

# (b) struct Token and enum Token in one package: accepted, `type Token` declared twice in Go
out_b="$("$BIN" run --dump-go "$W/struct_enum/main.gom" 2>&1)"
echo "$out_b" | grep -q '^error' && { echo "struct_enum: rejected (defect absent)"; exit 1; }
n=$(echo "$out_b" | grep -c '^type Token ')
echo "struct_enum: accepted; 'type Token' declared $n times in the emitted Go"
[ "$n" -ge 2 ] || exit 1
echo "DEFECT PRESENT"
exit 0
