// Throw-away integration test: hover on shorthand struct fields.
use std::path::{Path, PathBuf};

use compiler::query::hover_type;

#[test]
fn hover_on_shorthand_fields() {
    let dir = PathBuf::from(std::env::var("REPRO_DIR").expect("REPRO_DIR"));
    let src = std::fs::read_to_string(dir.join("main.gom")).unwrap();
    let path = Path::new("dummy");

    // line 3: `  Point { x, y }`          x at col 10, y at col 13 (variable uses)
    let e_x = hover_type(path, &src, 3, 10);
    let e_y = hover_type(path, &src, 3, 13);
    // line 7: `  let Point { x, y } = p;` x at col 14, y at col 17 (binders)
    let b_x = hover_type(path, &src, 7, 14);
    let b_y = hover_type(path, &src, 7, 17);
    // line 9: `  x`                       use of the binder
    let u_x = hover_type(path, &src, 9, 2);
    // line 14: `    Point { x, y } => y,` x at col 12, y at col 15 (binders), use of y at col 22
    let m_x = hover_type(path, &src, 14, 12);
    let m_y = hover_type(path, &src, 14, 15);
    let m_use = hover_type(path, &src, 14, 22);

    println!("literal  `Point {{ x, y }}`      hover x = {:?} (compiler: int32), y = {:?} (compiler: string)", e_x, e_y);
    println!("let      `let Point {{ x, y }}`  hover x = {:?} (compiler: int32), y = {:?} (compiler: string)", b_x, b_y);
    println!("use of x after the let          hover x = {:?}", u_x);
    println!("match    `Point {{ x, y }} => y` hover x = {:?} (compiler: int32), y = {:?} (compiler: string), use y = {:?}", m_x, m_y, m_use);

    let ok = e_x.as_deref() == Ok("int32")
        && e_y.as_deref() == Ok("string")
        && b_x.as_deref() == Ok("int32")
        && b_y.as_deref() == Ok("string")
        && m_x.as_deref() == Ok("int32")
        && m_y.as_deref() == Ok("string");
    println!("{}", if ok { "DEFECT ABSENT" } else { "DEFECT PRESENT" });
}
