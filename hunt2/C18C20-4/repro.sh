#!/bin/sh
# Run from the repository root. Exit 0 = defect present.
HERE=$(cd "$(dirname "$0")" && pwd)
ROOT=$(pwd)
T="$ROOT/crates/compiler/tests/zz_repro_c20_shorthand.rs"
trap 'rm -f "$T"' EXIT
cargo build --offline -p compiler >/dev/null 2>&1 || { echo "build failed"; exit 2; }

echo "--- what the compiler assigns (compiler run --dump-tast main.gom):"
TAST=$( cd "$HERE" && "$ROOT/target/debug/compiler" run --dump-tast ./main.gom 2>&1 )
echo "$TAST" | sed -n '1,22p'
echo "$TAST" | grep -q 'error' && { echo "program does not type-check"; exit 2; }

echo "--- hover answers:"
cp "$HERE/zz_repro_c20_shorthand.rs" "$T"
OUT=$(REPRO_DIR="$HERE" cargo test --offline -p compiler --test zz_repro_c20_shorthand -- --nocapture 2>&1)
echo "$OUT" | grep -E 'hover|DEFECT'
echo "$OUT" | grep -q 'DEFECT PRESENT'
