#!/bin/bash
# Run from the repository root. Exit 0 = defect present.
HERE="$(cd "$(dirname "$0")" && pwd)"
BIN="${GOML_BIN:-./target/debug/compiler}"
[ -x "$BIN" ] || cargo build --offline -q -p compiler || exit 2
W="$(mktemp -d)"; trap 'rm -rf "$W"' EXIT
cp "$HERE/prog/main.gom" "$W/main.gom"
out="$("$BIN" run --dump-go "$W/main.gom" 2>&1)"
echo "$out" | grep -q '^error' && { echo "$out" | grep '^error'; echo "rejected (defect absent)"; exit 1; }
echo "$out" | grep -n '_goml_trait_impl_Render_Table_Row_show'
n=$(echo "$out" | grep -c '^func _goml_trait_impl_Render_Table_Row_show(')
echo "func _goml_trait_impl_Render_Table_Row_show declared $n times"
[ "$n" -ge 2 ] && { echo "DEFECT PRESENT"; exit 0; }
exit 1
