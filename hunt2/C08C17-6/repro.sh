#!/bin/sh
# Run from the repository root. Exits 0 when the defect is PRESENT.
HERE="$(cd "$(dirname "$0")" && pwd)"
BIN=./target/debug/compiler
[ -x "$BIN" ] || cargo build --offline -p compiler >/dev/null 2>&1 || { echo "build failed"; exit 2; }
OUT="$($BIN run --dump-go "$HERE/prog/main.gom" 2>&1)"
OK="$($BIN run --dump-go "$HERE/prog_ok/main.gom" 2>&1)"
echo "--- prog (closure chosen by if / match)"
echo "$OUT" | grep -n 'var h__[0-9]* \|h__[0-9]* = adder\|var m__[0-9]* \|m__[0-9]* = adder\|func adder'
echo "--- prog_ok (control)"
echo "$OK" | grep -n 'var h__[0-9]* \|var m__[0-9]* \|apply(h__\|apply(m__'
# control: variables have the closure struct type and are called through the apply function
echo "$OK" | grep -q 'var h__[0-9]* closure_env_adder_0 = adder(' || { echo "control differs: inconclusive"; exit 2; }
# defect: the variable is declared with a Go func type and is assigned the result of adder(), which returns the struct type
if echo "$OUT" | grep -q 'func adder(a__0 int32) closure_env_adder_0' \
   && echo "$OUT" | grep -q 'var h__[0-9]* func(int32) int32$' \
   && echo "$OUT" | grep -q 'h__[0-9]* = adder(1)' \
   && echo "$OUT" | grep -q 'var m__[0-9]* func(int32) int32$' \
   && echo "$OUT" | grep -q 'm__[0-9]* = adder(10)'; then
  echo "DEFECT PRESENT: closure_env_adder_0 values are assigned to variables of type func(int32) int32"
  exit 0
fi
echo "defect absent"; exit 1
