#!/bin/sh
# Run from the repository root. Exits 0 when the defect is present.
here=$(cd "$(dirname "$0")" && pwd)
cargo build --offline -q -p compiler 2>/dev/null || cargo build --offline -p compiler || exit 2
tmp=$(mktemp -d)
# control: any other length literal is an exact length -> type error
if ./target/debug/compiler check --package Main --input "$here/control/main.gom" --output "$tmp/c.interface" >"$tmp/c.log" 2>&1; then
  echo "control unexpectedly accepted"; rm -rf "$tmp"; exit 1
fi
grep -o 'Array types have different lengths[^"]*' "$tmp/c.log" | head -1
# defect: the length literal 18446744073709551615 is accepted and unifies with every length
if ! ./target/debug/compiler check --package Main --input "$here/prog/main.gom" --output "$tmp/p.interface" >"$tmp/p.log" 2>&1; then
  cat "$tmp/p.log"; rm -rf "$tmp"; exit 1
fi
rm -rf "$tmp"
out=$(./target/debug/compiler run --dump-go "$here/prog/main.gom" 2>&1)
echo "$out" | sed -n '/^func first/,$p' | grep -v '^$'
echo "$out" | grep -q 'func first(a__0 \[18446744073709551615\]int32) int32' || exit 1
# the value annotated `[int32; 5]` is produced from a 3-element array without complaint
echo "$out" | grep -q 'var b__[0-9]* \[18446744073709551615\]int32 = widen(x__' || exit 1
# the helper that is called is never emitted (runtime.rs skips the "wildcard" length)
echo "$out" | grep -q 'array_get__Array_18446744073709551615_int32(a__0, 0)' || exit 1
echo "$out" | grep -q '^func array_get__Array_18446744073709551615_int32' && exit 1
echo "DEFECT PRESENT: [T; 18446744073709551615] type-checks against arrays of every length"
exit 0
