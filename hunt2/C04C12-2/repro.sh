#!/bin/bash
# Run from the repository root. Exits 0 when the defect is present.
set -u
ROOT=$(pwd)
HERE=$(cd "$(dirname "$0")" && pwd)
BIN="$ROOT/target/debug/compiler"
[ -x "$BIN" ] || cargo build --offline -p compiler >/dev/null 2>&1
WORK=$(mktemp -d); trap 'rm -rf "$WORK"' EXIT
cp "$HERE/main.gom" "$WORK/main.gom"
cd "$WORK"

"$BIN" check --package Main --input main.gom --output "$WORK/out" >check.txt 2>&1; rc_check=$?
echo "check: exit=$rc_check (0 = the type checker accepted a field that P does not have)"
"$BIN" build --package Main --input main.gom --output "$WORK/out" >build.txt 2>&1; rc_build=$?
echo "build: exit=$rc_build :: $(grep -m1 -A1 panicked build.txt | tr '\n' ' ')"
"$BIN" run main.gom >run.txt 2>&1; rc_run=$?
echo "run  : exit=$rc_run :: $(grep -m1 -A1 panicked run.txt | tr '\n' ' ')"

if grep -q "panicked at" run.txt && grep -q "has no field completion_placeholder" run.txt; then
  echo "DEFECT PRESENT"; exit 0
fi
echo "defect absent"; exit 1
