#!/bin/bash
# Run from the repository root. Exit 0 = defect present.
HERE="$(cd "$(dirname "$0")" && pwd)"
BIN="${GOML_BIN:-target/debug/compiler}"
[ -x "$BIN" ] || cargo build --offline -q -p compiler || exit 2

a=$("$BIN" run --dump-go "$HERE/call_result/main.gom" 2>&1)
b=$("$BIN" run --dump-go "$HERE/generic_payload/main.gom" 2>&1)
c=$("$BIN" run --dump-go "$HERE/control/main.gom" 2>&1)

echo "--- call_result:";     echo "$a" | grep -E "^error" | head -3
echo "--- generic_payload:"; echo "$b" | grep -E "^error" | head -3
echo "--- control (same patterns, scrutinee type written in a signature):"
echo "$c" | grep -E "^error|^== Go ==" | head -3

echo "$c" | grep -q "^== Go ==" || exit 1          # the rule "literal takes the scrutinee's type" works here
echo "$c" | grep -q "^error" && exit 1
echo "$a" | grep -q "Types are not equal: TInt32 and TInt64" || exit 1
echo "$b" | grep -q "Types are not equal: TInt32 and TUint8" || exit 1
echo "DEFECT PRESENT: unsuffixed integer patterns are typed int32 when the scrutinee's type is still an inference variable"
exit 0
