#!/bin/bash
# Run from the repository root. Exits 0 when the defect is PRESENT.
# `check` accepts every package of the project and writes interfaces; `build` of the same
# sources (and `run`) reject package Lib: the errors of the match compiler
# ("non-exhaustive match on integer literal", "method ... can only be called") are produced by a
# stage that `check` never runs.
set -u
ROOT=$(pwd)
cargo build --offline -q -p compiler 2>/dev/null || cargo build --offline -p compiler || exit 2
BIN="$ROOT/target/debug/compiler"
W=$(mktemp -d)
trap 'rm -rf "$W"' EXIT
mkdir -p "$W/p/Lib" "$W/chk" "$W/bld"
cat > "$W/p/Lib/l.gom" <<'G'
package Lib

fn classify(n: int32) -> string {
    match n {
        0 => "zero",
        1 => "one",
    }
}
G
cat > "$W/p/main.gom" <<'G'
package Main
import Lib

fn main() {
    string_println(Lib::classify(2));
}
G
cd "$W/p"
"$BIN" check --package Lib  --input Lib/l.gom --interface-path "$W/chk" --output "$W/chk/Lib";  c1=$?
"$BIN" check --package Main --input main.gom  --interface-path "$W/chk" --output "$W/chk/Main"; c2=$?
echo "check Lib: rc=$c1 ($(ls "$W/chk" | tr '\n' ' '))"; echo "check Main: rc=$c2"
"$BIN" build --package Lib --input Lib/l.gom --interface-path "$W/bld" --output "$W/bld/Lib" > "$W/b.txt" 2>&1; b1=$?
echo "build Lib: rc=$b1"; cut -c1-300 "$W/b.txt"; echo "files written by build: $(ls "$W/bld" | tr '\n' ' ')"
"$BIN" run ./main.gom > /dev/null 2> "$W/r.txt"; grep '^error' "$W/r.txt"
if [ $c1 -eq 0 ] && [ $c2 -eq 0 ] && [ -f "$W/chk/Lib.interface" ] && [ $b1 -ne 0 ] && [ ! -f "$W/bld/Lib.interface" ] \
   && grep -q 'non-exhaustive match' "$W/b.txt" && grep -q 'non-exhaustive match' "$W/r.txt"; then
  echo "DEFECT PRESENT"; exit 0
fi
echo "defect absent"; exit 1
