#!/bin/bash
# Run from the repository root. Exits 0 when the defect is PRESENT.
here="$(cd "$(dirname "$0")" && pwd)"
GOML="${GOML:-./target/debug/compiler}"
if [ ! -x "$GOML" ]; then
    cargo build --offline -p compiler >/dev/null 2>&1 || { echo "cannot build compiler"; exit 2; }
fi

emit() { "$GOML" run --dump-go "$1" 2>&1 | awk '/^package main/{p=1} p'; }

go_text="$(emit "$here/prog/main.gom")"
ren_text="$(emit "$here/prog_renamed/main.gom")"
if [ -z "$go_text" ]; then echo "program was not accepted (no Go emitted)"; exit 3; fi

echo "--- prog (library function Util::main):"
printf '%s\n' "$go_text" | grep -E '^func main0|_goml_Util_x3a__x3a_main'
echo "--- prog_renamed (Util::entry):"
printf '%s\n' "$ren_text" | grep -E '^func main0|^func _goml_Util|_goml_Util_x3a__x3a_entry\('

n_main0=$(printf '%s\n' "$go_text" | grep -c '^func main0(')
n_decl=$(printf '%s\n' "$go_text" | grep -c '^func _goml_Util_x3a__x3a_main(')
n_call=$(printf '%s\n' "$go_text" | grep -c '= _goml_Util_x3a__x3a_main(10)')
if [ "$n_main0" -eq 2 ] && [ "$n_decl" -eq 0 ] && [ "$n_call" -ge 1 ]; then
    echo
    echo "DEFECT PRESENT: two 'func main0' declarations, and the call site uses the undeclared name _goml_Util_x3a__x3a_main"
    exit 0
fi
echo "defect absent"
exit 1
