// Throw-away integration test: editor queries on one file of a two-file package.
use std::path::PathBuf;

use compiler::query::{dot_completions, hover_type};

#[test]
fn sibling_files_are_ignored_by_queries() {
    let dir = PathBuf::from(std::env::var("REPRO_DIR").expect("REPRO_DIR"));
    let path = dir.join("proj").join("main.gom");
    let src = std::fs::read_to_string(&path).unwrap();

    // line 1: `  let p: Point = helper(1);`   binder `p` at col 6, callee `helper` at col 17
    let p = hover_type(&path, &src, 1, 6);
    let helper = hover_type(&path, &src, 1, 17);
    // line 2: `  let n = size("abc");`        binder `n` at col 6
    let n = hover_type(&path, &src, 2, 6);
    // line 3: `  let q = p.x;`                binder `q` at col 6, cursor after `p.` at col 12
    let q = hover_type(&path, &src, 3, 6);
    let dot = dot_completions(&path, &src, 3, 12)
        .map(|items| items.into_iter().map(|i| i.name).collect::<Vec<_>>());

    println!("hover p      = {:?}   (compiler: Point)", p);
    println!("hover helper = {:?}   (compiler: (int32) -> Point)", helper);
    println!("hover n      = {:?}   (compiler: int64)", n);
    println!("hover q      = {:?}   (compiler: int32)", q);
    println!("dot after p. = {:?}   (compiler accepts p.x, p.y, p.getx())", dot);

    let agrees = p.as_deref() == Ok("Point")
        && n.as_deref() == Ok("int64")
        && q.as_deref() == Ok("int32")
        && dot.map(|d| d.contains(&"x".to_string())).unwrap_or(false);
    if agrees {
        println!("DEFECT ABSENT");
    } else {
        println!("DEFECT PRESENT");
    }
}
