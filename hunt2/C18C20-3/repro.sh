#!/bin/sh
# Run from the repository root. Exit 0 = defect present.
HERE=$(cd "$(dirname "$0")" && pwd)
ROOT=$(pwd)
T="$ROOT/crates/compiler/tests/zz_repro_c20_sibling.rs"
trap 'rm -f "$T"' EXIT
cargo build --offline -p compiler >/dev/null 2>&1 || { echo "build failed"; exit 2; }

echo "--- what the compiler assigns (compiler run --dump-tast proj/main.gom):"
( cd "$HERE/proj" && "$ROOT/target/debug/compiler" run --dump-tast ./main.gom 2>&1 | sed -n '1,8p' )
( cd "$HERE/proj" && "$ROOT/target/debug/compiler" run --dump-tast ./main.gom 2>&1 | grep -q 'let n/1: int64' ) \
  || { echo "the package does not type-check as expected"; exit 2; }

echo "--- what the editor queries answer for the same file:"
cp "$HERE/zz_repro_c20_sibling.rs" "$T"
OUT=$(REPRO_DIR="$HERE" cargo test --offline -p compiler --test zz_repro_c20_sibling -- --nocapture 2>&1)
echo "$OUT" | grep -E 'hover|dot after|DEFECT'
echo "$OUT" | grep -q 'DEFECT PRESENT'
