#!/bin/sh
# Run from the repository root. Exits 0 when the defect is PRESENT.
HERE="$(cd "$(dirname "$0")" && pwd)"
BIN=./target/debug/compiler
[ -x "$BIN" ] || cargo build --offline -p compiler >/dev/null 2>&1 || { echo "build failed"; exit 2; }
run() { $BIN run --dump-go "$HERE/$1/main.gom" 2>&1; }
L="$(run prog_late)"; E="$(run prog_early)"; G="$(run prog_generic)"
echo "Show::show(v) before vec_push(v, 1): $(echo "$L" | grep 'error (typer)')"
echo "Show::show(v) after  vec_push(v, 1): $(echo "$E" | grep -c 'error (typer)') typer errors; $(echo "$E" | grep -o '_goml_trait_impl_Show_Vec_x5b_int32_x5d__show(v__[0-9]*)')"
echo "show_it(v)    before vec_push(v, 1): $(echo "$G" | grep -c 'error (typer)') typer errors; $(echo "$G" | grep -o '_goml_show_it__T_Vec_x5b_int32_x5d_(v__[0-9]*)')"
echo "$E" | grep -q 'error (typer)' && exit 1
echo "$G" | grep -q 'error (typer)' && exit 1
if echo "$L" | grep -q 'Overload resolution failed for non-concrete, non-variable type TVec(TVar'; then
  echo "DEFECT PRESENT: the concrete call form is rejected although the receiver type is determined by the function body"
  exit 0
fi
echo "defect absent"; exit 1
