#!/bin/bash
# Run from the repository root. Exit 0 = defect present.
HERE="$(cd "$(dirname "$0")" && pwd)"
BIN="${GOML_BIN:-target/debug/compiler}"
[ -x "$BIN" ] || cargo build --offline -q -p compiler || exit 2
OUT=$(mktemp -d)
trap 'rm -rf "$OUT"' EXIT

echo "--- check:"
"$BIN" check --package Main --input "$HERE/prog/main.gom" --output "$OUT/chk" > "$OUT/check.log" 2>&1
check_rc=$?
cat "$OUT/check.log"; echo "check rc=$check_rc"; ls "$OUT"

echo "--- build:"
"$BIN" build --package Main --input "$HERE/prog/main.gom" --output "$OUT/bld" > "$OUT/build.log" 2>&1
build_rc=$?
cat "$OUT/build.log"; echo "build rc=$build_rc"

echo "--- run:"
"$BIN" run "$HERE/prog/main.gom" 2>&1 | head -3

# defect: `check` accepts (rc 0, no diagnostic, interface written) a program that the
# compiler rejects as soon as it is built
[ "$check_rc" -eq 0 ] || exit 1
grep -qi "non-exhaustive" "$OUT/check.log" && exit 1
[ -f "$OUT/chk.interface" ] || exit 1
[ "$build_rc" -ne 0 ] || exit 1
grep -q "non-exhaustive match on integer literal" "$OUT/build.log" || exit 1
echo "DEFECT PRESENT: check accepts a non-exhaustive integer match that build/run reject"
exit 0
